#!/bin/bash
# tools/all-seeds-wt.sh [name-filter] [parallelism]
# Like all-seeds.sh, but without touching /repo: every seeded change is applied to its own scratch worktree of /repo's
# HEAD and the quick check(s) named in its meta.json run against that worktree (tools/try-wt.sh). Safe while a
# background run uses /repo. Prints one line per seeded change.
export GOFLAGS=-mod=mod GOPROXY=off GOSUMDB=off GOTOOLCHAIN=local
filter=${1:-}; par=${2:-4}
one() {
  d=$1; name=$(basename $d)
  patch=$d/patch.diff; [ -f $d/patch-rebased.diff ] && patch=$d/patch-rebased.diff
  checks=$(python3 -c "import json;print(' '.join(json.load(open('$d/meta.json'))['detected_by']))")
  if grep -q '"note_after_fix_' $d/meta.json; then echo "$name: NEUTRALISED by a later fix: commit (see meta.json); not re-checked"; return; fi
  wt=$(mktemp -d /tmp/verif-seedwt-XXXXXX); rmdir $wt
  git -C /repo worktree add --detach $wt HEAD >/dev/null 2>&1 || { echo "$name: WORKTREE-FAILED"; return; }
  if ! git -C $wt apply $patch 2>/dev/null; then echo "$name: PATCH-DOES-NOT-APPLY"; git -C /repo worktree remove --force $wt; return; fi
  res=""
  for id in $checks; do
    v=$(/verif/tools/try-wt.sh $wt $id 2>&1 | grep -E '^SUMMARY' | sed 's/.*violations=\([0-9]*\).*/\1/')
    res="$res $id:viol=${v:-?}"
  done
  git -C /repo worktree remove --force $wt
  echo "$name:$res"
}
export -f one
ls -d /verif/seeded/*${filter}*/ | sed 's#/$##' | xargs -P $par -I{} bash -c 'one {}'
git -C /repo worktree prune
