#!/bin/bash
# tools/try-wt.sh <worktree> <ID>...
# Run checks against a scratch worktree of dawn (e.g. one holding a seeded change) WITHOUT touching /repo:
# a throw-away copy of the harness is pointed at the worktree through its go.mod replace line.  Evidence and
# replays of such a run land in the throw-away copy, never in /verif.  Tooling only - the commands registered in
# MANIFEST.json always build against /repo.
set -u
wt=$(cd "$1" && pwd); shift
H=$(mktemp -d /tmp/verif-wt-XXXXXX)
trap 'rm -rf "$H"' EXIT
cp -r /verif/harness "$H/harness"
cp /verif/check /verif/known-findings.json /verif/properties.jsonl "$H/"
sed -i "s#=> /repo\$#=> $wt#" "$H/harness/go.mod"
grep -q "=> $wt" "$H/harness/go.mod" || { echo "could not retarget go.mod"; exit 2; }
for id in "$@"; do
  out=$(cd "$H" && ./check "$id" "${TIER:-quick}" 2>&1)
  echo "$out" | grep -E "^(SUMMARY|BUILD-FAILED|NO-EVIDENCE)"
  echo "$out" | grep -E "^  case=" | sed 's/case="[^"]*"//' | sort | uniq -c | sort -rn | head -5
  echo "$out" | grep -E "^(VIOLATION)" | head -2
done
