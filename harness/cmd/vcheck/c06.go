package main

import (
	"fmt"
	"math/rand/v2"
	"os"
	"path/filepath"
	"runtime"
	"sort"
	"strings"
	"sync"
	"sync/atomic"
	"time"

	dawn "github.com/pgavlin/dawn"
	"github.com/pgavlin/dawn/verifharness/core"
	"github.com/pgavlin/dawn/verifharness/pj"
)

func init() {
	register("C06", "exploration", runC06)
	registerCase("c06", c06Case)
}

// A load graph: modules 0..np-1 are package build files //p<i>:BUILD.dawn, the rest are helper
// modules //lib:h<j>.dawn. loads[i] lists the modules i loads (in order).
type loadGraph struct {
	np, nh int
	loads  [][]int
	desc   string
	// sharedCache: the first helper that two or more packages load directly also exports a Cache and a flag converter
	// that uses it; those packages declare a flag converted by it (and set on the command line) and another flag from
	// inside a once() callback of the same cache - user code running inside parse_flag and inside once at the same time
	sharedCache bool
}

// cacheHelper returns the index of the helper that carries the shared cache (-1 = none) and the packages using it.
func (g *loadGraph) cacheHelper() (int, []int) {
	if !g.sharedCache {
		return -1, nil
	}
	for h := g.np; h < g.n(); h++ {
		var users []int
		for p := 0; p < g.np; p++ {
			if containsInt(g.loads[p], h) {
				users = append(users, p)
			}
		}
		if len(users) >= 2 {
			return h, users
		}
	}
	return -1, nil
}

// args are the command-line flags of the project.
func (g *loadGraph) args() []string {
	_, users := g.cacheHelper()
	// (dawn parses the whole command line once per declared flag and rejects what that one flag set does not know, so a
	// project can take a flag on the command line only if it declares a single flag: these graphs declare just "lvl")
	if len(users) == 0 {
		return nil
	}
	return []string{fmt.Sprintf("--p%d.lvl=3", users[0])}
}

func (g *loadGraph) n() int { return g.np + g.nh }

func (g *loadGraph) label(i int) string {
	if i < g.np {
		return fmt.Sprintf("//p%d:BUILD.dawn", i)
	}
	return fmt.Sprintf("//lib:h%d.dawn", i-g.np)
}

func (g *loadGraph) moduleLabel(i int) string { return "module:" + g.label(i) }

func (g *loadGraph) sym(i int) string { return fmt.Sprintf("X%d", i) }

// reach returns the modules reachable from the package build files, and whether a load cycle
// is reachable (independent DFS).
func (g *loadGraph) reach() (map[int]bool, bool) {
	seen := map[int]bool{}
	color := make([]int, g.n())
	cyclic := false
	var dfs func(u int)
	dfs = func(u int) {
		seen[u] = true
		color[u] = 1
		for _, v := range g.loads[u] {
			if color[v] == 1 {
				cyclic = true
			} else if color[v] == 0 {
				dfs(v)
			}
		}
		color[u] = 2
	}
	for i := 0; i < g.np; i++ {
		if color[i] == 0 {
			dfs(i)
		}
	}
	return seen, cyclic
}

func (g *loadGraph) write(root string) {
	os.MkdirAll(root, 0o755)
	os.WriteFile(filepath.Join(root, "dawn.toml"), []byte("name = \"lg\"\n"), 0o644)
	os.WriteFile(filepath.Join(root, "BUILD.dawn"), []byte("# root package, no targets\n"), 0o644)
	for i := 0; i < g.n(); i++ {
		var b strings.Builder
		fmt.Fprintf(&b, "v.tick(%q)\n", g.moduleLabel(i))
		ch, users := g.cacheHelper()
		for k, d := range g.loads[i] {
			fmt.Fprintf(&b, "v.pause(%q)\n", fmt.Sprintf("%s/before-load-%d", g.label(i), k))
			if d == ch && containsInt(users, i) {
				fmt.Fprintf(&b, "load(%q, %s_%d = %q, \"SHARED\", \"conv\")\n", g.label(d), "L", k, g.sym(d))
			} else {
				fmt.Fprintf(&b, "load(%q, %s_%d = %q)\n", g.label(d), "L", k, g.sym(d))
			}
		}
		fmt.Fprintf(&b, "v.pause(%q)\n", g.label(i)+"/after-loads")
		fmt.Fprintf(&b, "%s = %d\n", g.sym(i), i)
		if i == ch {
			b.WriteString("SHARED = Cache()\ndef conv(s):\n    v.pause(\"conv\")\n    return SHARED.once(\"conv:\" + s, lambda: int(s))\n")
		}
		if containsInt(users, i) {
			fmt.Fprintf(&b, "v.pause(%q)\n", g.label(i)+"/before-flags")
			if i == users[0] {
				// the project's only flag: its value goes through the converter, which uses the shared cache
				fmt.Fprintf(&b, "LV = parse_flag(\"lvl\", type=conv, default=1)\n")
			} else {
				// a target declared from inside a once() callback of the shared cache
				fmt.Fprintf(&b, "def x%d(self):\n    pass\n", i)
				fmt.Fprintf(&b, "IN = SHARED.once(\"decl%d\", lambda: [v.pause(\"decl\"), target(name=\"x%d\", function=x%d)][0])\n", i, i, i)
			}
		}
		var path string
		if i < g.np {
			if ch >= 0 {
				b.WriteString("F = \"d\"\n")
			} else {
				fmt.Fprintf(&b, "F = parse_flag(%q, default=\"d\")\n", fmt.Sprintf("flag%d", i))
			}
			fmt.Fprintf(&b, "def t%d(self):\n    v.body(\"//p%d:t%d\", [%s, F], [], \"\")\ntarget(name=\"t%d\", function=t%d)\n", i, i, i, g.sym(i), i, i)
			path = filepath.Join(root, fmt.Sprintf("p%d", i), "BUILD.dawn")
		} else {
			path = filepath.Join(root, "lib", fmt.Sprintf("h%d.dawn", i-g.np))
		}
		os.MkdirAll(filepath.Dir(path), 0o755)
		os.WriteFile(path, []byte(b.String()), 0o644)
	}
}

func loadGraphFor(seed int64, id string) *loadGraph {
	parts := strings.Split(id, "/")
	g := &loadGraph{}
	mk := func(np, nh int) {
		g.np, g.nh = np, nh
		g.loads = make([][]int, np+nh)
	}
	if parts[0] == "named" {
		switch parts[1] {
		case "three-cycle": // p0 -> h0 -> h1 -> h2 -> h0
			mk(1, 3)
			g.loads[0], g.loads[1], g.loads[2], g.loads[3] = []int{1}, []int{2}, []int{3}, []int{1}
		case "shared-helper-loading-another": // p0,p1,p2 -> h0 -> h1 (acyclic)
			mk(3, 2)
			g.loads[0], g.loads[1], g.loads[2], g.loads[3] = []int{3}, []int{3}, []int{3}, []int{4}
		case "self-load":
			mk(1, 1)
			g.loads[0], g.loads[1] = []int{1}, []int{1}
		case "two-cycle":
			mk(2, 2)
			g.loads[0], g.loads[1], g.loads[2], g.loads[3] = []int{2}, []int{3}, []int{3}, []int{2}
		case "package-two-cycle": // p0 loads p1's build file and vice versa
			mk(2, 0)
			g.loads[0], g.loads[1] = []int{1}, []int{0}
		case "six-cycle":
			mk(2, 6)
			g.loads[0], g.loads[1] = []int{2}, []int{5}
			for k := 0; k < 6; k++ {
				g.loads[2+k] = []int{2 + (k+1)%6}
			}
		case "shared-cache-and-flag-converter": // p0..p3 -> h0 (cache + converter) -> h1
			mk(4, 2)
			for p := 0; p < 4; p++ {
				g.loads[p] = []int{4}
			}
			g.loads[4] = []int{5}
			g.sharedCache = true
		case "diamond-chain": // acyclic, deep sharing
			mk(4, 6)
			for p := 0; p < 4; p++ {
				g.loads[p] = []int{4, 5}
			}
			g.loads[4], g.loads[5] = []int{6, 7}, []int{6, 7}
			g.loads[6], g.loads[7] = []int{8}, []int{8, 9}
		}
		g.desc = parts[1]
		return g
	}
	r := core.RandFor(seed, "c06/"+parts[0]+"/"+parts[1])
	mk(2+r.IntN(7), r.IntN(7))
	n := g.n()
	cyc := r.IntN(8) == 0 // ~1/8 of the graphs get back edges
	for i := 0; i < n; i++ {
		k := r.IntN(4)
		for ; k > 0; k-- {
			var d int
			if g.nh > 0 && r.IntN(5) != 0 {
				d = g.np + r.IntN(g.nh)
			} else {
				d = r.IntN(n)
			}
			// acyclic by construction: helpers load higher-numbered helpers, packages load
			// higher-numbered packages or helpers
			if d <= i || containsInt(g.loads[i], d) {
				continue
			}
			g.loads[i] = append(g.loads[i], d)
		}
	}
	if cyc {
		for k := 1 + r.IntN(2); k > 0; k-- {
			i, d := r.IntN(n), r.IntN(n)
			if i < d {
				i, d = d, i
			}
			if r.IntN(6) == 0 {
				d = i
			}
			if !containsInt(g.loads[i], d) {
				g.loads[i] = append(g.loads[i], d)
			}
		}
	}
	g.sharedCache = !cyc && r.IntN(4) == 0
	g.desc = fmt.Sprintf("random np=%d nh=%d shared-cache=%v", g.np, g.nh, g.sharedCache)
	return g
}

var c06mu sync.Mutex
var c06rand *rand.Rand

func c06Case(c *core.Ctx, id string) {
	cut := strings.LastIndex(id, "/s")
	g := loadGraphFor(c.Seed, id[:cut])
	root := filepath.Join(c.Scratch, fmt.Sprintf("c06-%d", os.Getpid()), "tree")
	os.RemoveAll(filepath.Dir(root))
	defer os.RemoveAll(filepath.Dir(root))
	s := pj.NewSession(filepath.Dir(root))
	g.write(s.Root)
	c06rand = core.RandFor(c.Seed, "c06sched/"+id)
	pj.PauseHook = func(string) {
		c06mu.Lock()
		k := c06rand.IntN(10)
		c06mu.Unlock()
		for i := 0; i < k; i++ {
			runtime.Gosched()
		}
		if k > 7 {
			x := 0
			for i := 0; i < 30000; i++ {
				x += i
			}
			_ = x
		}
	}
	// the same PRNG-driven yields at the named points inside loadModule / module.wait (hook H4)
	// Schedules whose number is odd additionally make the goroutines that are about to wait for an
	// already registered module rendezvous (bounded spin, no timers), so that they enter the
	// check-for-cycles / wait sequence at the same instant.
	var arrivals atomic.Int32
	rendezvous := strings.HasSuffix(id, "1") || strings.HasSuffix(id, "3") || strings.HasSuffix(id, "5") || strings.HasSuffix(id, "7") || strings.HasSuffix(id, "9")
	dawn.VerifPoint = func(name, label string) {
		if !strings.HasPrefix(name, "module.") {
			return
		}
		if rendezvous && name == "module.before-wait" {
			n := arrivals.Add(1)
			for i := 0; i < 200000 && arrivals.Load() < 2 && n < 2; i++ {
				if i%64 == 63 {
					runtime.Gosched()
				}
			}
			return
		}
		if !rendezvous {
			pj.PauseHook(name)
		}
	}
	pj.ResetTicks(s.Root)
	res := pj.Build(pj.BuildReq{Root: s.Root, Args: g.args()})
	reach, cyclic := g.reach()
	ticks := pj.TicksFor(s.Root)
	viol := func(sym string, w map[string]any) {
		w["graph"], w["loads"], w["packages"], w["load_error"] = g.desc, g.loads, g.np, res.LoadErr
		c.Violation(id, "", sym, w)
	}
	loading := map[string]int{}
	for _, e := range res.Events {
		if e.Kind == "ModuleLoading" {
			loading[e.Label]++
		}
	}
	for i := 0; i < g.n(); i++ {
		l := g.moduleLabel(i)
		if ticks[l] > 1 || loading[l] > 1 {
			viol("module-executed-more-than-once", map[string]any{"module": l, "executions": ticks[l], "loading_events": loading[l]})
		}
		if !cyclic && reach[i] && ticks[l] != 1 {
			viol("reachable-module-not-executed-exactly-once", map[string]any{"module": l, "executions": ticks[l]})
		}
		if !reach[i] && ticks[l] != 0 {
			viol("unreachable-module-executed", map[string]any{"module": l})
		}
	}
	if cyclic {
		if res.LoadErr == "" {
			viol("cyclic-load-graph-loads-successfully", map[string]any{})
		} else if !strings.Contains(res.LoadErr, "cyclic dependency") {
			viol("cyclic-load-graph-fails-with-another-error", map[string]any{})
		}
		c.Count("cyclic_load_graphs", 1)
	} else {
		c.Count("acyclic_load_graphs", 1)
		if res.LoadErr != "" {
			viol("acyclic-load-graph-fails-to-load", map[string]any{})
		} else {
			var wantT, wantF []string
			_, users := g.cacheHelper()
			for i := 0; i < g.np; i++ {
				wantT = append(wantT, fmt.Sprintf("//p%d:t%d", i, i))
				if len(users) == 0 {
					wantF = append(wantF, fmt.Sprintf("p%d.flag%d=\"d\"", i, i))
				}
			}
			if len(users) > 0 {
				wantF = append(wantF, fmt.Sprintf("p%d.lvl=3", users[0]))
				for _, i := range users[1:] {
					wantT = append(wantT, fmt.Sprintf("//p%d:x%d", i, i))
				}
				c.Count("load_graphs_with_a_shared_cache_and_flag_converter", 1)
			}
			sort.Strings(wantT)
			sort.Strings(wantF)
			got := append([]string{}, res.Targets...)
			sort.Strings(got)
			if fmt.Sprint(got) != fmt.Sprint(wantT) {
				viol("targets-after-load-differ", map[string]any{"targets": got, "expected": wantT})
			}
			gf := append([]string{}, res.Flags...)
			sort.Strings(gf)
			if fmt.Sprint(gf) != fmt.Sprint(wantF) {
				viol("flags-after-load-differ", map[string]any{"flags": gf, "expected": wantF})
			}
		}
	}
	// Reload() of a loaded project is a load too: each reachable module executes exactly once more, same targets and flags
	if !cyclic && res.LoadErr == "" && !rendezvous {
		lv := &pj.Live{}
		lv.Build(pj.BuildReq{Root: s.Root, Args: g.args()})
		for round := 0; round < 2; round++ {
			if round == 1 {
				// a same-length edit of one module between two reloads (within the same second, as an editor's save
				// followed by `dawn watch` is): the reloaded project must be what a fresh load of the tree gives
				bf := filepath.Join(s.Root, "p0", "BUILD.dawn")
				if b, err := os.ReadFile(bf); err == nil {
					os.WriteFile(bf, []byte(strings.Replace(string(b), "default=\"d\"", "default=\"e\"", 1)), 0o644)
					fresh := pj.Build(pj.BuildReq{Root: s.Root, Args: g.args()})
					res.Targets, res.Flags = fresh.Targets, fresh.Flags
					c.Count("reloads_after_a_same_length_edit", 1)
				}
			}
			pj.ResetTicks(s.Root)
			r2 := lv.Build(pj.BuildReq{Root: s.Root, Args: g.args()})
			t2 := pj.TicksFor(s.Root)
			c.Count("reloads_of_a_loaded_project", 1)
			if r2.LoadErr != "" {
				viol("acyclic-load-graph-fails-to-load", map[string]any{"on": "Reload", "reload_error": r2.LoadErr})
				break
			}
			for i := 0; i < g.n(); i++ {
				l := g.moduleLabel(i)
				if want := map[bool]int{true: 1, false: 0}[reach[i]]; t2[l] != want {
					viol("reachable-module-not-executed-exactly-once", map[string]any{"on": "Reload", "module": l, "executions": t2[l], "expected": want})
				}
			}
			a, b := append([]string{}, res.Targets...), append([]string{}, r2.Targets...)
			sort.Strings(a)
			sort.Strings(b)
			fa, fb := append([]string{}, res.Flags...), append([]string{}, r2.Flags...)
			sort.Strings(fa)
			sort.Strings(fb)
			if fmt.Sprint(a) != fmt.Sprint(b) || fmt.Sprint(fa) != fmt.Sprint(fb) {
				viol("targets-after-load-differ", map[string]any{"on": "Reload", "targets": b, "expected": a, "flags": fb, "expected_flags": fa})
			}
		}
	}
	shared := 0
	indeg := make([]int, g.n())
	for _, ls := range g.loads {
		for _, d := range ls {
			indeg[d]++
		}
	}
	for i, d := range indeg {
		if d > 1 && len(g.loads[i]) > 0 {
			shared++
		}
	}
	key := ""
	if len(reach) > g.np {
		key = fmt.Sprintf("%s|%v|%d", id, g.loads, len(res.Events))
	}
	c.Eval(key)
	c.Count("modules_executed", int64(len(ticks)))
	c.Count("graphs_with_shared_helper_that_loads_another", int64(min(shared, 1)))
	c.SampleKey(strings.Split(id, "/")[0], map[string]any{"case": id, "graph": g.desc, "loads": g.loads, "packages": g.np, "cyclic": cyclic, "load_error": res.LoadErr})
}

func runC06(c *core.Ctx) {
	c.SetRule("generated load graphs over 2-8 packages and 0-6 helper modules (chains, diamonds, helpers shared by several packages that load other helpers, self-loads, 2..6-cycles, " +
		"package build files loading each other) x PRNG schedules (v.pause between load statements yields without timers), named scenarios; real dawn.Load in plain children " +
		"(Go runtime deadlock detector) and -race children; oracle: v.tick counters + ModuleLoading events (at most once), expected target/flag sets for acyclic graphs, " +
		"'cyclic dependency' error for cyclic ones, cyclicity by independent DFS; non-trivial = some helper module is reachable; distinct = distinct (graph, schedule, event count)")
	var ids []string
	for _, nm := range []string{"three-cycle", "shared-helper-loading-another", "self-load", "two-cycle", "package-two-cycle", "six-cycle", "diamond-chain", "shared-cache-and-flag-converter"} {
		reps := c.N(12, 100)
		if nm == "package-two-cycle" || nm == "two-cycle" || nm == "three-cycle" {
			reps = c.N(300, 3000) // cycle detection races with the publication of wait edges
		}
		for k := 0; k < reps; k++ {
			ids = append(ids, fmt.Sprintf("named/%s/s%d", nm, k))
		}
	}
	n := c.N(400, 6000)
	for i := 0; i < n; i++ {
		for k := 0; k < c.N(3, 8); k++ {
			ids = append(ids, fmt.Sprintf("rnd/%d/s%d", i, k))
		}
	}
	var want []string
	for _, id := range ids {
		if c.Want(id) {
			want = append(want, id)
		}
	}
	died := func(race bool) func(string, *core.ChildResult) {
		return func(caseID string, r *core.ChildResult) {
			g := loadGraphFor(c.Seed, caseID[:strings.LastIndex(caseID, "/s")])
			w := map[string]any{"graph": g.desc, "loads": g.loads, "packages": g.np, "race_build": race, "stderr": headLinesStr(r.Stderr, 40)}
			scen := ""
			if strings.HasPrefix(caseID, "named/") {
				scen = caseID[:strings.LastIndex(caseID, "/s")]
			}
			switch kind := r.FatalKind(); {
			case kind == "deadlock":
				c.Violation(caseID, scen, "load-deadlocks", w)
			case kind != "":
				c.Violation(caseID, scen, "load-kills-the-process:"+kind, w)
			case r.TimedOut && strings.Contains(r.Stderr, "dawn.(*module).wait"):
				c.Violation(caseID, scen, "load-hangs-in-module-wait", w)
			case r.TimedOut:
				c.Inconclusive("case " + caseID + ": watchdog fired without deadlock evidence")
			default:
				c.Violation(caseID, scen, fmt.Sprintf("load-kills-the-process:exit-%d", r.Exit), w)
			}
		}
	}
	for _, race := range []bool{false, true} {
		if race && c.Violations() > 0 {
			break // the plain build already refuted the property; the race build would only repeat it slowly
		}
		bin, env, cases := "", []string{}, want
		timeout := 3 * time.Minute
		if race {
			if c.RaceBin == "" {
				continue
			}
			bin = c.RaceBin
			env = append(env, "GORACE=halt_on_error=0 log_path="+c.Scratch+"/race-C06")
			cases = nil
			for i, id := range want {
				if i%3 == 0 {
					cases = append(cases, id)
				}
			}
			timeout = 100 * time.Second
		}
		c.RunSharded(cases, core.ShardOpts{Mode: "c06", Bin: bin, Workers: 7, CPUs: 2, Timeout: timeout, PerCaseTime: 150 * time.Millisecond, Env: env, Died: died(race)})
	}
	c.Extra("race_detector_reports", countRaceReports(c, c.Scratch+"/race-C06", "C06"))
}
