// vcheck is the single driver of all runtime-monitoring checks.
//
//	vcheck run <ID> <quick|thorough> [--replay file]
//	vcheck child <mode> ...           (internal: journaled child processes)
package main

import (
	"fmt"
	"os"

	"github.com/pgavlin/dawn/verifharness/core"
)

type checkFn func(c *core.Ctx)
type childFn func(args []string)

var checks = map[string]checkFn{}
var levels = map[string]string{}
var children = map[string]childFn{}
var caseFns = map[string]core.CaseFunc{}

func registerCase(mode string, f core.CaseFunc) { caseFns[mode] = f }

func register(id, level string, f checkFn) { checks[id] = f; levels[id] = level }
func registerChild(mode string, f childFn) { children[mode] = f }

func main() {
	if len(os.Args) < 2 {
		usage()
	}
	switch os.Args[1] {
	case "run":
		if len(os.Args) < 4 {
			usage()
		}
		id, tier := os.Args[2], os.Args[3]
		f, ok := checks[id]
		if !ok {
			core.Fatalf("unknown check %q", id)
		}
		if tier != "quick" && tier != "thorough" {
			usage()
		}
		c := core.NewCtx(id, tier)
		c.Level = levels[id]
		for i := 4; i+1 < len(os.Args); i++ {
			if os.Args[i] == "--replay" {
				c.LoadReplay(os.Args[i+1])
			}
		}
		if c.Replay == "" {
			c.ClearReplays()
		}
		f(c)
		c.Finish()
	case "child":
		if len(os.Args) < 3 {
			usage()
		}
		if os.Args[2] == "cases" {
			// child cases <ID> <tier> <seed> <mode>
			if len(os.Args) < 7 {
				usage()
			}
			os.Setenv("VERIF_SEED", os.Args[5])
			c := core.NewCtx(os.Args[3], os.Args[4])
			cf, ok := caseFns[os.Args[6]]
			if !ok {
				core.Fatalf("unknown case mode %q", os.Args[6])
			}
			core.ChildCases(c, cf)
			return
		}
		f, ok := children[os.Args[2]]
		if !ok {
			core.Fatalf("unknown child mode %q", os.Args[2])
		}
		f(os.Args[3:])
	case "list":
		for id := range checks {
			fmt.Println(id)
		}
	default:
		usage()
	}
}

func usage() {
	fmt.Fprintln(os.Stderr, "usage: vcheck run <ID> <quick|thorough> [--replay file]")
	os.Exit(2)
}
