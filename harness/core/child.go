package core

import (
	"bufio"
	"encoding/json"
	"fmt"
	"os"
	"os/exec"
	"path/filepath"
	"strings"
	"sync/atomic"
	"syscall"
	"time"
)

// Journal is written by child processes: BEGIN before a case runs, END after it. A child that
// dies leaves a BEGIN without an END, which names the killing case.
type Journal struct {
	f *os.File
}

func OpenJournal() *Journal {
	p := os.Getenv("VERIF_JOURNAL")
	if p == "" {
		return &Journal{}
	}
	f, err := os.OpenFile(p, os.O_WRONLY|os.O_APPEND|os.O_CREATE, 0o644)
	if err != nil {
		Fatalf("journal: %v", err)
	}
	return &Journal{f: f}
}

func (j *Journal) line(kind, id string, v any) {
	if j.f == nil {
		return
	}
	b, err := json.Marshal(v)
	if err != nil {
		b = []byte(fmt.Sprintf("%q", fmt.Sprint(v)))
	}
	j.f.Write([]byte(kind + " " + id + " " + string(b) + "\n"))
}

func (j *Journal) Begin(id string, v any) { j.line("BEGIN", id, v) }
func (j *Journal) End(id string, v any)   { j.line("END", id, v) }
func (j *Journal) Note(id string, v any)  { j.line("NOTE", id, v) }

type JournalEntry struct {
	ID    string
	Begin json.RawMessage
	End   json.RawMessage // nil if the case never finished
	Notes []json.RawMessage
}

func ReadJournal(path string) []*JournalEntry {
	f, err := os.Open(path)
	if err != nil {
		return nil
	}
	defer f.Close()
	var out []*JournalEntry
	idx := map[string]*JournalEntry{}
	sc := bufio.NewScanner(f)
	sc.Buffer(make([]byte, 1<<20), 1<<28)
	for sc.Scan() {
		parts := strings.SplitN(sc.Text(), " ", 3)
		if len(parts) != 3 {
			continue
		}
		switch parts[0] {
		case "BEGIN":
			e := &JournalEntry{ID: parts[1], Begin: json.RawMessage(parts[2])}
			idx[parts[1]] = e
			out = append(out, e)
		case "END":
			if e := idx[parts[1]]; e != nil {
				e.End = json.RawMessage(parts[2])
			}
		case "NOTE":
			if e := idx[parts[1]]; e != nil {
				e.Notes = append(e.Notes, json.RawMessage(parts[2]))
			}
		}
	}
	return out
}

type ChildOpts struct {
	Bin     string   // default: ctx.Self
	Args    []string // arguments after the binary
	Env     []string
	CPUs    int // >0: taskset -c 0..CPUs-1 (sets runtime.NumCPU in the child)
	CPUList string
	Timeout time.Duration // wall-clock watchdog; firing is inconclusive by itself
	Dir     string
	Name    string // used for file names
	Stdin   string
}

type ChildResult struct {
	Exit       int
	Signal     string
	TimedOut   bool
	Stderr     string // tail of stderr
	StderrPath string
	Stdout     string
	Journal    []*JournalEntry
	Wall       time.Duration
}

// Open returns the first journal entry that has no END (nil if all cases finished).
func (r *ChildResult) Open() *JournalEntry {
	for _, e := range r.Journal {
		if e.End == nil {
			return e
		}
	}
	return nil
}

// FatalKind classifies the stderr of a dead Go process.
func (r *ChildResult) FatalKind() string {
	s := r.Stderr
	switch {
	case strings.Contains(s, "all goroutines are asleep - deadlock!"):
		return "deadlock"
	case strings.Contains(s, "stack overflow"):
		return "stack-overflow"
	case strings.Contains(s, "concurrent map"):
		return "concurrent-map"
	case strings.Contains(s, "fatal error: checkptr"):
		return "checkptr"
	case strings.Contains(s, "panic:"):
		return "panic"
	case strings.Contains(s, "fatal error:"):
		return "fatal-error"
	}
	return ""
}

var childSeq atomic.Int64

func (c *Ctx) RunChild(o ChildOpts) *ChildResult {
	bin := o.Bin
	if bin == "" {
		bin = c.Self
	}
	n := childSeq.Add(1)
	name := o.Name
	if name == "" {
		name = "child"
	}
	base := filepath.Join(c.Scratch, fmt.Sprintf("%s-%d-%d", name, os.Getpid(), n))
	journal := base + ".journal"
	errPath := base + ".stderr"
	outPath := base + ".stdout"

	argv := append([]string{bin}, o.Args...)
	cpulist := o.CPUList
	if cpulist == "" && o.CPUs > 0 {
		cpulist = fmt.Sprintf("0-%d", o.CPUs-1)
	}
	if cpulist != "" {
		argv = append([]string{"taskset", "-c", cpulist}, argv...)
	}
	cmd := exec.Command(argv[0], argv[1:]...)
	cmd.Dir = o.Dir
	cmd.Env = append(os.Environ(), "VERIF_JOURNAL="+journal, "VERIF_SCRATCH="+c.Scratch, "GOTRACEBACK=all")
	cmd.Env = append(cmd.Env, o.Env...)
	ef, _ := os.Create(errPath)
	of, _ := os.Create(outPath)
	cmd.Stderr = ef
	cmd.Stdout = of
	if o.Stdin != "" {
		cmd.Stdin = strings.NewReader(o.Stdin)
	}
	cmd.SysProcAttr = &syscall.SysProcAttr{Setpgid: true}
	start := time.Now()
	res := &ChildResult{StderrPath: errPath}
	if err := cmd.Start(); err != nil {
		Fatalf("start child: %v", err)
	}
	done := make(chan error, 1)
	go func() { done <- cmd.Wait() }()
	timeout := o.Timeout
	if timeout == 0 {
		timeout = 10 * time.Minute
	}
	var err error
	select {
	case err = <-done:
	case <-time.After(timeout):
		res.TimedOut = true
		syscall.Kill(-cmd.Process.Pid, syscall.SIGQUIT)
		select {
		case err = <-done:
		case <-time.After(20 * time.Second):
			syscall.Kill(-cmd.Process.Pid, syscall.SIGKILL)
			err = <-done
		}
	}
	ef.Close()
	of.Close()
	res.Wall = time.Since(start)
	if err != nil {
		if ee, ok := err.(*exec.ExitError); ok {
			ws := ee.Sys().(syscall.WaitStatus)
			if ws.Signaled() {
				res.Signal = ws.Signal().String()
				res.Exit = -1
			} else {
				res.Exit = ws.ExitStatus()
			}
		} else {
			res.Exit = -2
		}
	}
	res.Stderr = tail(errPath, 64<<10)
	res.Stdout = tail(outPath, 1<<20)
	res.Journal = ReadJournal(journal)
	os.Remove(journal)
	os.Remove(outPath)
	if res.Exit == 0 && !res.TimedOut {
		os.Remove(errPath)
	}
	return res
}

// head+tail of a file, bounded.
func tail(path string, max int64) string {
	f, err := os.Open(path)
	if err != nil {
		return ""
	}
	defer f.Close()
	st, _ := f.Stat()
	if st.Size() <= max {
		b, _ := os.ReadFile(path)
		return string(b)
	}
	hb := make([]byte, max/2)
	f.ReadAt(hb, 0)
	tb := make([]byte, max/2)
	f.ReadAt(tb, st.Size()-max/2)
	return string(hb) + "\n...[truncated]...\n" + string(tb)
}
