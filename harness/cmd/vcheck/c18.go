package main

import (
	"bytes"
	"fmt"
	"io"
	"math/rand/v2"
	"os"
	"path/filepath"
	"sort"
	"strings"
	"sync"
	"time"

	dawn "github.com/pgavlin/dawn"
	"github.com/pgavlin/dawn/label"
	"github.com/pgavlin/dawn/verifharness/core"
	"github.com/pgavlin/dawn/verifharness/pj"
	"go.starlark.net/starlark"
	"go.starlark.net/starlarkstruct"
)

func init() {
	register("C18", "exploration", runC18)
	registerCase("c18", c18Case)
}

// protocolProblems checks one Run's event list against the per-label grammar
//
//	U | E P* S | E P* F | F | (nothing)
//
// plus the run-level rules. deps gives the direct dependencies of function targets (for the
// "no events only downstream of a failure" rule); want gives the lines each label wrote.
func protocolProblems(evs []pj.Event, root string, runErr string, want map[string][]string, deps map[string][]string, checkLines bool) []string {
	var probs []string
	per := map[string][]pj.Event{}
	var order []string
	runDone := -1
	nRunDone := 0
	lastOf := map[string]int{}
	for i, e := range evs {
		switch e.Kind {
		case "RunDone":
			nRunDone++
			runDone = i
			if e.Err != runErr {
				probs = append(probs, fmt.Sprintf("RunDone carries error %q but Run returned %q", e.Err, runErr))
			}
		case "TargetUpToDate", "TargetEvaluating", "TargetSucceeded", "TargetFailed", "Print":
			if !strings.HasPrefix(e.Label, "module:") {
				if _, ok := per[e.Label]; !ok {
					order = append(order, e.Label)
				}
				per[e.Label] = append(per[e.Label], e)
				lastOf[e.Label] = i
			}
		}
	}
	if nRunDone != 1 {
		probs = append(probs, fmt.Sprintf("RunDone delivered %d times", nRunDone))
	} else if li, ok := lastOf[root]; ok && li > runDone {
		probs = append(probs, "RunDone delivered before the requested target's last event")
	}
	outcome := map[string]string{}
	for _, l := range order {
		var sig strings.Builder
		var lines []string
		for _, e := range per[l] {
			switch e.Kind {
			case "TargetUpToDate":
				sig.WriteByte('U')
			case "TargetEvaluating":
				sig.WriteByte('E')
			case "TargetSucceeded":
				sig.WriteByte('S')
			case "TargetFailed":
				sig.WriteByte('F')
			case "Print":
				sig.WriteByte('P')
				lines = append(lines, e.Line)
			}
		}
		s := sig.String()
		core := strings.ReplaceAll(s, "P", "")
		ok := core == "U" || core == "ES" || core == "EF" || core == "F"
		if ok && strings.Contains(s, "P") {
			// prints only between E and the completion event
			first, last := strings.IndexByte(s, 'P'), strings.LastIndexByte(s, 'P')
			if !strings.HasPrefix(s, "E") || first < 1 || last != len(s)-2 {
				ok = false
			}
		}
		if !ok {
			probs = append(probs, fmt.Sprintf("%s: event sequence %q is not one of U | E P* S | E P* F | F", l, s))
		}
		if core == "F" {
			msg := per[l][len(per[l])-1].Err
			if !strings.Contains(msg, "missing dependency") && !strings.Contains(msg, "cyclic dependency") && !strings.Contains(msg, "function environment") {
				probs = append(probs, fmt.Sprintf("%s: lone failed event for %q (neither a missing/cyclic dependency nor a failed up-to-date check)", l, msg))
			}
		}
		outcome[l] = core
		if checkLines {
			if w, has := want[l]; has && strings.HasPrefix(core, "E") {
				if fmt.Sprintf("%q", lines) != fmt.Sprintf("%q", w) {
					probs = append(probs, fmt.Sprintf("%s: delivered lines %q, written lines %q", l, lines, w))
				}
			} else if len(lines) > 0 && !has {
				probs = append(probs, fmt.Sprintf("%s: %d lines delivered for a target that wrote nothing", l, len(lines)))
			}
		}
	}
	// targets without any event must be downstream of a failure
	var visit func(l string, seen map[string]bool) bool // true if l failed or is downstream of a failure
	visit = func(l string, seen map[string]bool) bool {
		if seen[l] {
			return false
		}
		seen[l] = true
		if o := outcome[l]; o == "EF" || o == "F" {
			return true
		}
		for _, d := range deps[l] {
			if visit(d, seen) {
				return true
			}
		}
		return false
	}
	var reach func(l string, seen map[string]bool)
	reach = func(l string, seen map[string]bool) {
		if seen[l] {
			return
		}
		seen[l] = true
		for _, d := range deps[l] {
			reach(d, seen)
		}
	}
	closure := map[string]bool{}
	reach(root, closure)
	for l := range closure {
		if _, known := deps[l]; !known {
			continue // a label that names no target (a missing dependency), or no dependency information at all
		}
		if _, has := outcome[l]; !has {
			failedBelow := false
			for _, d := range deps[l] {
				if visit(d, map[string]bool{}) {
					failedBelow = true
				}
			}
			// (a target with a missing dependency must itself report the lone failed event: the missing label has no
			// outcome, so such a target is not "downstream of a failure")
			if !failedBelow {
				probs = append(probs, fmt.Sprintf("%s: visited target produced no event although no dependency of it failed (run error %q)", l, runErr))
			}
		}
	}
	return probs
}

// expectedLines: what a line-oriented consumer must see for the concatenation of the chunks.
func expectedLines(chunks [][]byte) []string {
	text := string(bytes.Join(chunks, nil))
	if text == "" {
		return nil
	}
	lines := strings.Split(text, "\n")
	if lines[len(lines)-1] == "" {
		lines = lines[:len(lines)-1]
	}
	return lines
}

func chunkText(r *rand.Rand, text string) [][]byte {
	var out [][]byte
	b := []byte(text)
	for len(b) > 0 {
		n := 1 + r.IntN(7)
		if r.IntN(4) == 0 {
			n = len(b)
		}
		if n > len(b) {
			n = len(b)
		}
		out = append(out, b[:n])
		b = b[n:]
	}
	if r.IntN(5) == 0 {
		out = append(out, []byte{}) // an empty write
	}
	return out
}

var c18Texts = []string{
	"", "x", "\n", "\n\n", "hello\n", "hello", "a\nb\n", "a\nb", "\na", "a\n\nb\n", "héllo wörld\n", "世界\n界", "\U0001F600\n\U0001F600", "one\ntwo\nthree\nfour",
	"trailing space \n", "tab\there\n", "cr\r\nlf\n", strings.Repeat("long line ", 40) + "\n", "no newline at all " + strings.Repeat("z", 100),
}

var c18mu sync.Mutex
var c18chunks map[string][][]byte

func c18Case(c *core.Ctx, id string) {
	pj.EmitChunks = func(l string) [][]byte {
		c18mu.Lock()
		defer c18mu.Unlock()
		return c18chunks[l]
	}
	if strings.HasPrefix(id, "chunk/") {
		c18Chunkings(c, id)
		return
	}
	if strings.HasPrefix(id, "long/") {
		c18Long(c, id)
		return
	}
	g := &pj.Gen{R: c.Rand(id)}
	r := g.R
	dir := filepath.Join(c.Scratch, fmt.Sprintf("c18-%d", os.Getpid()))
	os.RemoveAll(dir)
	defer os.RemoveAll(dir)
	s := pj.NewSession(dir)
	p := g.Project()
	// C18-specific decoration: emitting bodies, a missing dependency, a dependency cycle
	ts := p.AllTargets()
	for _, t := range ts {
		t.Emit = r.IntN(2) == 0
	}
	variant := []string{"plain", "plain", "missing-dependency", "cycle", "self-cycle"}[r.IntN(5)]
	switch variant {
	case "missing-dependency":
		t := ts[r.IntN(len(ts))]
		// the missing label resembles nothing, or is a near miss of an existing one (a typo, a digit more, the right name
		// in another package): error messages with a suggestion take another path
		near := ts[r.IntN(len(ts))].Label()
		i := strings.LastIndex(near, ":")
		cands := []string{"//:nonexistent", near + "x", near[:i+1] + "x" + near[i+1:], near[:len(near)-1], "//zz" + near[i:], near[:i+1] + strings.ToUpper(near[i+1:])}
		miss := cands[r.IntN(len(cands))]
		if p.Target(miss) != nil || strings.HasSuffix(miss, ":") {
			miss = "//:nonexistent"
		}
		t.Deps = append(t.Deps, miss)
		c.Count("missing_dependency_labels:"+map[bool]string{true: "unlike-any-target", false: "near-miss-of-a-target"}[miss == "//:nonexistent"], 1)
	case "cycle":
		a := ts[r.IntN(len(ts))]
		if len(a.Deps) > 0 {
			if b := p.Target(a.Deps[0]); b != nil {
				b.Deps = append(b.Deps, a.Label())
			}
		}
	case "self-cycle":
		t := ts[r.IntN(len(ts))]
		t.Deps = append(t.Deps, t.Label())
	}
	e := pj.NewEngine(s, p, g)
	deps := map[string][]string{}
	for _, t := range e.P.AllTargets() {
		deps[t.Label()] = append(append([]string{}, t.Deps...), t.GenSrc...)
	}
	nb := c.N(4, 6)
	for b := 0; b < nb; b++ {
		if b > 0 {
			for k := r.IntN(3); k > 0; k-- {
				e.Edit([]string{"src-content", "atom-lit", "tgt-extra", "comment", "output-delete", "src-touch"}[r.IntN(6)])
			}
		}
		c18mu.Lock()
		c18chunks = map[string][][]byte{}
		want := map[string][]string{}
		for _, t := range e.P.AllTargets() {
			if t.Emit {
				text := c18Texts[r.IntN(len(c18Texts))]
				if r.IntN(3) == 0 {
					text += c18Texts[r.IntN(len(c18Texts))]
				}
				ch := chunkText(r, text)
				c18chunks[t.Label()] = ch
				want[t.Label()] = expectedLines(ch)
			}
		}
		c18mu.Unlock()
		target := pickTarget(e)
		o := pj.BuildOpt{}
		switch x := r.IntN(10); {
		case x == 0:
			o.Always = true
		case x == 1:
			o.Dry = true
		case x <= 3:
			all := e.P.AllTargets()
			o.Failing = []string{all[r.IntN(len(all))].Label()}
		}
		// the last build of half of the histories is first made through run(callback=...), so that the targets the edits made
		// stale are evaluated on that channel (with their diffs and output lines); the regular build follows
		if b == nb-1 && b > 0 && r.IntN(2) == 0 && !o.Dry && len(o.Failing) == 0 {
			if probs, kinds := c18Callback(s.Root, target, e.P.Args, nil, e.S, false, want, deps); len(probs) > 0 {
				c.Violation(id, "", "callback-event-protocol-violated", map[string]any{"problems": probs, "variant": variant, "target": target, "event_kinds": kinds, "note": "callback run before the regular build"})
				return
			}
			c.Count("callback_runs_that_evaluate_stale_targets", 1)
		}
		twice := r.IntN(4) == 0 && !o.Dry
		var st *pj.Step
		var res pj.BuildRes
		if twice {
			// two runs on one loaded project, as the REPL does - half of the time with a Reload() in between, as `dawn watch` does
			e.S.SetFailing(o.Failing)
			reload := r.IntN(2) == 0
			if reload {
				c.Count("second_runs_after_reload", 1)
			}
			res = pj.Build(pj.BuildReq{Root: s.Root, Target: target, Always: o.Always, Args: e.P.Args, Twice: true, Reload: reload})
			st = &pj.Step{}
		} else {
			st, res, _ = e.Build(target, o)
		}
		if res.LoadErr != "" {
			c.Violation(id, "", "generated-project-does-not-load", map[string]any{"error": res.LoadErr, "variant": variant})
			return
		}
		// split events into runs
		var runs [][]pj.Event
		var cur []pj.Event
		for _, ev := range res.Events {
			if ev.Kind == "SecondRun" {
				runs = append(runs, cur)
				cur = nil
				continue
			}
			cur = append(cur, ev)
		}
		runs = append(runs, cur)
		errs := []string{res.RunErr, res.Run2Err}
		for ri, evs := range runs {
			w := want
			if o.Dry {
				w = map[string][]string{}
			}
			probs := protocolProblems(evs, target, errs[ri], w, deps, true)
			if !o.Dry && !twice {
				// evaluating is reported exactly when the body runs
				evalSet := map[string]bool{}
				for _, ev := range evs {
					if ev.Kind == "TargetEvaluating" && !strings.HasPrefix(ev.Label, "source:") {
						evalSet[ev.Label] = true
					}
				}
				execSet := map[string]bool{}
				for _, l := range st.Executed {
					execSet[l] = true
				}
				if fmt.Sprint(sortedKeys(evalSet)) != fmt.Sprint(sortedKeys(execSet)) {
					probs = append(probs, fmt.Sprintf("'evaluating' reported for %v but bodies ran for %v", sortedKeys(evalSet), sortedKeys(execSet)))
				}
			}
			nprint := 0
			for _, ev := range evs {
				if ev.Kind == "Print" {
					nprint++
				}
			}
			key := ""
			if nprint > 0 || errs[ri] != "" {
				key = fmt.Sprintf("%s/%d/%d", id, b, ri)
			}
			c.Eval(key)
			c.Count("runs", 1)
			c.Count("print_events", int64(nprint))
			c.Count("variant:"+variant, 1)
			if ri == 1 {
				c.Count("second_runs_on_one_loaded_project", 1)
			}
			if len(probs) > 0 {
				c.Violation(id, "", "event-protocol-violated", map[string]any{"problems": probs, "variant": variant, "run": ri + 1, "target": target, "dry": o.Dry, "events": renderEvents(evs), "history": e.Script()})
				return
			}
		}
		// 'evaluating' in a dry run means "would run": the real build of the same state must
		// report evaluating for exactly the same labels (when it succeeds)
		if o.Dry && !twice && res.RunErr == "" {
			dryEval := evaluatingSet(res.Events)
			_, real, _ := e.Build(target, pj.BuildOpt{Always: o.Always})
			if real.RunErr == "" && real.LoadErr == "" {
				c.Count("dry_runs_compared_with_the_real_build", 1)
				if realEval := evaluatingSet(real.Events); fmt.Sprint(dryEval) != fmt.Sprint(realEval) {
					c.Violation(id, "", "event-protocol-violated", map[string]any{"problems": []string{fmt.Sprintf("the dry run reported evaluating for %v, the real build of the same state for %v", dryEval, realEval)}, "variant": variant, "target": target, "history": e.Script()})
					return
				}
			}
		}
		// the second public channel: run(callback=...)
		if b == nb-1 {
			cbAlways := r.IntN(2) == 0 // every body runs again and its output lines travel through the callback channel
			if cbAlways {
				c.Count("callback_runs_with_always (output lines compared)", 1)
			}
			if probs, kinds := c18Callback(s.Root, target, e.P.Args, o.Failing, e.S, cbAlways, want, deps); len(probs) > 0 {
				c.Violation(id, "", "callback-event-protocol-violated", map[string]any{"problems": probs, "variant": variant, "target": target, "failing": o.Failing, "event_kinds": kinds})
				return
			}
			c.Count("callback_runs", 1)
		}
	}
	c.SampleKey(variant, map[string]any{"case": id, "variant": variant, "targets": len(ts), "history": e.Script()})
}

func renderEvents(evs []pj.Event) []string {
	var out []string
	for _, e := range evs {
		if e.Kind == "ModuleLoading" || e.Kind == "ModuleLoaded" || e.Kind == "LoadDone" {
			continue
		}
		s := e.Kind + " " + e.Label
		if e.Line != "" || e.Kind == "Print" {
			s += fmt.Sprintf(" %q", e.Line)
		}
		if e.Err != "" {
			s += " err=" + e.Err
		}
		out = append(out, s)
		if len(out) > 80 {
			break
		}
	}
	return out
}

// c18Callback builds target through the run() builtin with a callback and checks the grammar
// on the "kind" field of the event structs.
func c18Callback(root, target string, args []string, failing []string, s *pj.Session, always bool, want map[string][]string, deps map[string][]string) ([]string, []string) {
	s.SetFailing(failing)
	mainRec := &pj.Recorder{} // the project's own Events sink, next to the callback channel
	proj, err := dawn.Load(root, &dawn.LoadOptions{Args: args, Events: mainRec, Builtins: starlark.StringDict{"v": pj.Module()}})
	if err != nil {
		return []string{"load: " + err.Error()}, nil
	}
	thread, globals := proj.REPLEnv(io.Discard, &label.Label{Package: "//"})
	var mu sync.Mutex
	var evs []pj.Event
	cb := starlark.NewBuiltin("cb", func(_ *starlark.Thread, _ *starlark.Builtin, a starlark.Tuple, _ []starlark.Tuple) (starlark.Value, error) {
		st, ok := a[0].(*starlarkstruct.Struct)
		if !ok {
			return starlark.None, nil
		}
		get := func(n string) string {
			v, err := st.Attr(n)
			if err != nil || v == nil {
				return ""
			}
			if sv, ok := v.(starlark.String); ok {
				return string(sv)
			}
			if v == starlark.None {
				return ""
			}
			return v.String()
		}
		mu.Lock()
		evs = append(evs, pj.Event{Kind: get("kind"), Label: get("label"), Err: get("err"), Line: get("line")})
		mu.Unlock()
		return starlark.None, nil
	})
	kwargs := []starlark.Tuple{{starlark.String("callback"), cb}}
	if always {
		kwargs = append(kwargs, starlark.Tuple{starlark.String("always"), starlark.True})
	}
	_, runErr := starlark.Call(thread, globals["run"], starlark.Tuple{starlark.String(target)}, kwargs)
	es := ""
	if runErr != nil {
		es = runErr.Error()
	}
	mu.Lock()
	defer mu.Unlock()
	var kinds []string
	for _, e := range evs {
		kinds = append(kinds, e.Kind+" "+e.Label)
	}
	// RunDone's err field carries the message of Run's error; compare loosely (run() wraps nothing)
	var rd string
	for _, e := range evs {
		if e.Kind == "RunDone" {
			rd = e.Err
		}
	}
	probs := protocolProblems(evs, target, rd, want, deps, always)
	// while a callback carries a run, the project's own sink must not receive pieces of it: an output line there has no
	// evaluating/completion around it
	for _, e := range mainRec.Snapshot() {
		switch e.Kind {
		case "Print", "TargetEvaluating", "TargetSucceeded", "TargetFailed", "TargetUpToDate", "RunDone":
			probs = append(probs, fmt.Sprintf("%s %s %q delivered to the project's Events sink during a run whose events go to the callback", e.Kind, e.Label, e.Line))
		}
		if len(probs) > 12 {
			break
		}
	}
	if (rd == "") != (es == "") {
		probs = append(probs, fmt.Sprintf("RunDone err=%q but run() returned %q", rd, es))
	}
	// a failing body must be reported as failed on this channel too
	for _, f := range failing {
		sawE, sawF := false, false
		for _, e := range evs {
			if e.Label == f && e.Kind == "TargetEvaluating" {
				sawE = true
			}
			if e.Label == f && e.Kind == "TargetFailed" {
				sawF = true
			}
		}
		if sawE && !sawF {
			probs = append(probs, fmt.Sprintf("%s: body failed but no event of kind TargetFailed was delivered to the callback", f))
		}
	}
	return probs, kinds
}

// c18Chunkings: every chunking of short texts through the real lineWriter of a target.
func c18Chunkings(c *core.Ctx, id string) {
	var ti int
	fmt.Sscanf(id, "chunk/%d", &ti)
	texts := []string{"a\nb\nc", "ab\n\ncd\n", "\n\nx", "é\n世x", "abc", "a\n", "\n", "xy\nz\n\n"}
	text := texts[ti%len(texts)]
	dir := filepath.Join(c.Scratch, fmt.Sprintf("c18c-%d", os.Getpid()))
	os.RemoveAll(dir)
	defer os.RemoveAll(dir)
	s := pj.NewSession(dir)
	os.WriteFile(filepath.Join(s.Root, "dawn.toml"), []byte("name = \"c\"\n"), 0o644)
	os.WriteFile(filepath.Join(s.Root, "BUILD.dawn"), []byte("def t(self):\n    v.emit(\"//:t\")\ntarget(name=\"t\", function=t, always=True)\n"), 0o644)
	b := []byte(text)
	n := len(b)
	for mask := 0; mask < 1<<(n-1); mask++ {
		var chunks [][]byte
		start := 0
		for i := 1; i < n; i++ {
			if mask>>(i-1)&1 == 1 {
				chunks = append(chunks, b[start:i])
				start = i
			}
		}
		chunks = append(chunks, b[start:])
		c18mu.Lock()
		c18chunks = map[string][][]byte{"//:t": chunks}
		c18mu.Unlock()
		res := pj.Build(pj.BuildReq{Root: s.Root, Target: "//:t"})
		want := map[string][]string{"//:t": expectedLines(chunks)}
		probs := protocolProblems(res.Events, "//:t", res.RunErr, want, nil, true)
		c.Eval(fmt.Sprintf("%s/%d", id, mask))
		c.Count("chunkings", 1)
		if res.LoadErr != "" || len(probs) > 0 {
			var cs []string
			for _, ch := range chunks {
				cs = append(cs, string(ch))
			}
			c.Violation(fmt.Sprintf("%s/%d", id, mask), "", "event-protocol-violated", map[string]any{"problems": probs, "text": text, "chunks": cs, "load_error": res.LoadErr, "events": renderEvents(res.Events)})
			return
		}
	}
	c.SampleKey("chunkings", map[string]any{"case": id, "text": text, "chunkings": 1 << (n - 1)})
}

// c18Long: very long lines (around the 4 KiB and 64 KiB buffer sizes of the usual line scanners, and 1 MiB) through the real
// lineWriter of a target, between ordinary lines and followed by an unterminated tail, under five chunk sizes.
var c18LongLens = []int{1000, 4095, 4096, 4097, 65535, 65536, 65537, 100000, 1 << 20}
var c18LongChunks = []int{0, 7, 4096, 32768, 65536}

func c18Long(c *core.Ctx, id string) {
	var k int
	fmt.Sscanf(id, "long/%d", &k)
	n := c18LongLens[k/len(c18LongChunks)%len(c18LongLens)]
	cs := c18LongChunks[k%len(c18LongChunks)]
	dir := filepath.Join(c.Scratch, fmt.Sprintf("c18l-%d", os.Getpid()))
	os.RemoveAll(dir)
	defer os.RemoveAll(dir)
	s := pj.NewSession(dir)
	os.WriteFile(filepath.Join(s.Root, "dawn.toml"), []byte("name = \"c\"\n"), 0o644)
	os.WriteFile(filepath.Join(s.Root, "BUILD.dawn"), []byte("def t(self):\n    v.emit(\"//:t\")\ntarget(name=\"t\", function=t, always=True)\n"), 0o644)
	long := make([]byte, n)
	for i := range long {
		long[i] = byte('a' + (i*7+i/251)%26)
	}
	text := append([]byte("before\n"), long...)
	text = append(text, []byte("\nafter one\n\nafter two\r\npartial tail")...)
	var chunks [][]byte
	if cs == 0 {
		chunks = [][]byte{text}
	} else {
		for b := text; len(b) > 0; {
			m := cs
			if m > len(b) {
				m = len(b)
			}
			chunks = append(chunks, b[:m])
			b = b[m:]
		}
	}
	c18mu.Lock()
	c18chunks = map[string][][]byte{"//:t": chunks}
	c18mu.Unlock()
	res := pj.Build(pj.BuildReq{Root: s.Root, Target: "//:t"})
	want := map[string][]string{"//:t": expectedLines(chunks)}
	probs := protocolProblems(res.Events, "//:t", res.RunErr, want, nil, true)
	c.Eval(id)
	c.Distinct(fmt.Sprintf("long/%d/%d", n, cs))
	c.Count("long_line_builds", 1)
	c.Max("longest_line_bytes", int64(n))
	if res.LoadErr != "" || len(probs) > 0 {
		for i, p := range probs {
			if len(p) > 400 {
				probs[i] = p[:400] + "..."
			}
		}
		c.Violation(id, "", "event-protocol-violated", map[string]any{"problems": probs, "long_line_bytes": n, "chunk_size": cs, "writes": len(chunks), "load_error": res.LoadErr, "run_error": res.RunErr})
	}
}

func runC18(c *core.Ctx) {
	c.SetRule("generated projects (parallel fan-outs, emitting bodies with PRNG-chunked text incl. empty lines, trailing partial lines, multi-byte runes split across writes, failing bodies, " +
		"missing and cyclic dependencies, dry runs, always) x 4-6 builds each, two Runs on one loaded project, every chunking (2^(n-1)) of 8 short texts through the real lineWriter, " +
		"lines of 1000..1 MiB bytes (around 4 KiB and 64 KiB) x 5 chunk sizes; " +
		"a recorder implementing dawn.Events logs everything under one mutex, the offline checker applies the per-label grammar U | E P* S | E P* F | F, the RunDone rules, " +
		"line equality, 'evaluating iff the body ran' (execution log), and the same grammar on the run(callback=) channel; plain and -race; " +
		"non-trivial = a run with output lines or an error; distinct = distinct (project, build, run)")
	var ids []string
	for ti := 0; ti < 8; ti++ {
		ids = append(ids, fmt.Sprintf("chunk/%d", ti))
	}
	for k := 0; k < len(c18LongLens)*len(c18LongChunks); k++ {
		ids = append(ids, fmt.Sprintf("long/%d", k))
	}
	n := c.N(300, 10000)
	for i := 0; i < n; i++ {
		ids = append(ids, fmt.Sprintf("proj/%d", i))
	}
	var want []string
	for _, id := range ids {
		if c.Want(id) {
			want = append(want, id)
		}
	}
	sort.Strings(want)
	for _, race := range []bool{false, true} {
		if race && c.Violations() > 0 {
			break
		}
		bin, env, cases := "", []string{}, want
		if race {
			if c.RaceBin == "" {
				continue
			}
			bin = c.RaceBin
			env = append(env, "GORACE=halt_on_error=0 log_path="+c.Scratch+"/race-C18")
			cases = nil
			for i, id := range want {
				if i%4 == 0 {
					cases = append(cases, id)
				}
			}
		}
		c.RunSharded(cases, core.ShardOpts{Mode: "c18", Bin: bin, Workers: 7, CPUs: 2, Timeout: 10 * time.Minute, PerCaseTime: 10 * time.Second, Env: env})
	}
	c.Extra("race_detector_reports", countRaceReports(c, c.Scratch+"/race-C18", "C18"))
	c.Extra("exhaustive_part", "all 2^(n-1) chunkings of 8 texts of up to 8 bytes")
}
