// Package sval generates Starlark values and compares them structurally (isomorphism that also
// compares concrete types, insertion order and aliasing).
package sval

import (
	"fmt"
	"math"
	"math/big"
	"math/rand/v2"
	"strings"

	"github.com/pgavlin/dawn/pickle"
	"go.starlark.net/starlark"
)

// HostObj is a value only a host pickler can encode.
type HostObj struct {
	Name string
	Args starlark.Tuple
}

// String must not descend into Args: a corrupted encoding can make a host object reachable from
// its own arguments, and the interpreter's cycle detection does not extend through foreign types.
func (h *HostObj) String() string        { return fmt.Sprintf("host.%s/%d", h.Name, len(h.Args)) }
func (h *HostObj) Type() string          { return "hostobj" }
func (h *HostObj) Freeze()               {}
func (h *HostObj) Truth() starlark.Bool  { return true }
func (h *HostObj) Hash() (uint32, error) { return 0, fmt.Errorf("unhashable: hostobj") }

func HostPickler(x starlark.Value) (string, string, starlark.Tuple, error) {
	if h, ok := x.(*HostObj); ok {
		return "vh", h.Name, h.Args, nil
	}
	return "", "", nil, pickle.ErrCannotPickle
}

// HostPicklerT is HostPickler as a pickle.RecursivePickler: a host object that is reached again while its own
// arguments are being encoded (it is one of its own arguments, like a recursive function is one of its own
// globals) is encoded as the stand-in host.Rec(name).
type HostPicklerT struct{}

func (HostPicklerT) Pickle(x starlark.Value) (string, string, starlark.Tuple, error) {
	return HostPickler(x)
}
func (HostPicklerT) PickleRecursive(x starlark.Value) (string, string, starlark.Tuple, error) {
	if h, ok := x.(*HostObj); ok {
		return "vh", "Rec", starlark.Tuple{starlark.String(h.Name)}, nil
	}
	return "", "", nil, pickle.ErrCannotPickle
}

func HostUnpickler(module, name string, args starlark.Tuple) (starlark.Value, error) {
	if module != "vh" {
		return nil, fmt.Errorf("unknown module %q", module)
	}
	return &HostObj{Name: name, Args: args}, nil
}

// BoundaryInts are the integer width boundaries.
func BoundaryInts() []starlark.Int {
	var out []starlark.Int
	for _, s := range []string{
		"0", "1", "2", "127", "128", "255", "256", "257", "300", "511", "512", "4660", "32767", "32768", "65535",
		"65536", "65537", "65580", "16777215", "16777216", "19660800", "2147483647", "2147483648", "2147483649",
		"4294967295", "4294967296", "-1", "-2", "-128", "-255", "-256", "-257", "-32768", "-65535", "-65536",
		"-2147483647", "-2147483648", "-2147483649", "-4294967296",
		"9223372036854775807", "9223372036854775808", "-9223372036854775808", "-9223372036854775809",
		"18446744073709551615", "18446744073709551616", "340282366920938463463374607431768211456",
		"-340282366920938463463374607431768211457",
	} {
		var b big.Int
		b.SetString(s, 10)
		out = append(out, starlark.MakeBigInt(&b))
	}
	// around the largest integer a one-byte length field can describe (255 bytes, signed) and well beyond it
	for _, bits := range []uint{2031, 2032, 2039, 2040, 2047, 2048, 4096, 8192} {
		for _, d := range []int64{-1, 0, 1} {
			var b big.Int
			b.Lsh(big.NewInt(1), bits)
			b.Add(&b, big.NewInt(d))
			out = append(out, starlark.MakeBigInt(&b))
			var n big.Int
			n.Neg(&b)
			out = append(out, starlark.MakeBigInt(&n))
		}
	}
	return out
}

var StringLens = []int{0, 1, 2, 254, 255, 256, 257, 65535, 65536, 70000}
var SizeClasses = []int{0, 1, 2, 3, 4, 5, 7, 8, 9, 10, 15, 16, 17, 33, 64, 100, 255, 256, 257, 999, 1000, 1001, 2000, 2001, 3001}

type Gen struct {
	R    *rand.Rand
	Host bool // may generate HostObj values
	// RecHost: some host objects are one of their own arguments (needs HostPicklerT); host objects are then also
	// shared through the pool, so memoized values follow them in the encoding
	RecHost bool
	// Unique makes every leaf distinct (used to make aliasing checks unambiguous).
	ctr int
}

func (g *Gen) Int() starlark.Int {
	switch g.R.IntN(8) {
	case 0:
		b := BoundaryInts()
		return b[g.R.IntN(len(b))]
	case 1:
		return starlark.MakeInt(g.R.IntN(256))
	case 2:
		return starlark.MakeInt(256 + g.R.IntN(65536-256))
	case 3:
		return starlark.MakeInt64(int64(int32(g.R.Uint32())))
	case 4:
		return starlark.MakeInt64(int64(g.R.Uint64()))
	case 5:
		var b big.Int
		b.SetUint64(g.R.Uint64())
		if g.R.IntN(8) == 0 {
			b.Lsh(&b, uint(g.R.IntN(5000))) // up to ~630 bytes: beyond what a one-byte length field describes
		} else {
			b.Lsh(&b, uint(g.R.IntN(200)))
		}
		if g.R.IntN(2) == 0 {
			b.Neg(&b)
		}
		b.Add(&b, big.NewInt(int64(g.R.IntN(1000))))
		return starlark.MakeBigInt(&b)
	case 6:
		return starlark.MakeInt(-g.R.IntN(70000))
	default:
		return starlark.MakeInt(g.R.IntN(70000))
	}
}

func (g *Gen) Float() starlark.Float {
	switch g.R.IntN(10) {
	case 0:
		return starlark.Float(math.Inf(1))
	case 1:
		return starlark.Float(math.Inf(-1))
	case 2:
		return starlark.Float(math.NaN())
	case 3:
		return starlark.Float(math.Copysign(0, -1))
	case 4:
		return starlark.Float(0)
	case 5:
		return starlark.Float(float64(g.R.IntN(100000)))
	case 6:
		return starlark.Float(math.SmallestNonzeroFloat64)
	default:
		return starlark.Float(math.Float64frombits(g.R.Uint64()))
	}
}

var alphabet = []string{"a", "b", "z", "0", " ", "\n", "\x00", "\\", "\"", "é", "世", "\U0001F600", "\xff", "\x80"}

func (g *Gen) StrLen(n int) string {
	var b strings.Builder
	for b.Len() < n {
		b.WriteString(alphabet[g.R.IntN(len(alphabet))])
	}
	return b.String()[:n]
}

func (g *Gen) Str() string {
	switch g.R.IntN(12) {
	case 0:
		return g.StrLen(StringLens[g.R.IntN(len(StringLens))])
	case 1:
		return ""
	default:
		return g.StrLen(g.R.IntN(12))
	}
}

// Leaf returns a non-container value.
func (g *Gen) Leaf() starlark.Value {
	switch g.R.IntN(9) {
	case 0:
		return starlark.None
	case 1:
		return starlark.Bool(g.R.IntN(2) == 0)
	case 2, 3, 4:
		return g.Int()
	case 5:
		return g.Float()
	case 6, 7:
		return starlark.String(g.Str())
	default:
		return starlark.Bytes(g.Str())
	}
}

// Hashable returns a hashable value (usable as dict key / set element).
func (g *Gen) Hashable(depth int) starlark.Value {
	if depth > 0 && g.R.IntN(4) == 0 {
		n := g.R.IntN(5)
		t := make(starlark.Tuple, n)
		for i := range t {
			t[i] = g.Hashable(depth - 1)
		}
		return t
	}
	for {
		v := g.Leaf()
		if f, ok := v.(starlark.Float); ok && math.IsNaN(float64(f)) {
			continue // NaN keys are never equal to themselves
		}
		return v
	}
}

// Value returns a random value nested at most depth deep. pool collects identity-bearing
// containers that later values may alias (including ancestors, giving cycles).
func (g *Gen) Value(depth int, pool *[]starlark.Value) starlark.Value {
	if depth <= 0 || g.R.IntN(3) == 0 {
		return g.Leaf()
	}
	if pool != nil && len(*pool) > 0 && g.R.IntN(5) == 0 {
		return (*pool)[g.R.IntN(len(*pool))]
	}
	n := g.R.IntN(6)
	switch k := g.R.IntN(40); {
	case k == 0:
		n = SizeClasses[g.R.IntN(len(SizeClasses))]
	case k < 4:
		n = 6 + g.R.IntN(20) // the sizes between "a handful" and "a batch"
	}
	elem := func() starlark.Value {
		if n > 50 {
			return g.Leaf()
		}
		return g.Value(depth-1, pool)
	}
	kinds := 4
	if g.Host {
		kinds = 5
	}
	switch g.R.IntN(kinds) {
	case 0:
		t := make(starlark.Tuple, n)
		for i := range t {
			t[i] = elem()
		}
		return t
	case 1:
		l := starlark.NewList(nil)
		if pool != nil {
			*pool = append(*pool, l)
		}
		for i := 0; i < n; i++ {
			l.Append(elem())
		}
		return l
	case 2:
		d := starlark.NewDict(n)
		if pool != nil {
			*pool = append(*pool, d)
		}
		for i := 0; i < n; i++ {
			k := g.Hashable(1)
			if n > 50 {
				k = starlark.MakeInt(i*7 + 1)
			}
			d.SetKey(k, elem())
		}
		return d
	case 3:
		s := starlark.NewSet(n)
		if pool != nil {
			*pool = append(*pool, s)
		}
		for i := 0; i < n; i++ {
			k := g.Hashable(1)
			if n > 50 {
				k = starlark.MakeInt(i*3 + 2)
			}
			s.Insert(k)
		}
		return s
	default:
		// Host objects are shared (DAG) but never part of a cycle: the codec memoises them only
		// after their arguments, so a cycle through one is not representable.
		if n > 6 {
			n = 6
		}
		args := make(starlark.Tuple, n)
		for i := range args {
			args[i] = g.Value(depth-1, nil)
		}
		g.ctr++
		h := &HostObj{Name: fmt.Sprintf("T%d", g.R.IntN(3)), Args: args}
		if g.RecHost {
			if g.R.IntN(2) == 0 {
				h.Args = append(h.Args, h)
				if g.R.IntN(3) == 0 { // not in the last position
					h.Args = append(h.Args, g.Leaf())
				}
			}
			if pool != nil {
				*pool = append(*pool, h)
			}
		}
		return h
	}
}

// Iso reports the first structural difference between a and b (nil if isomorphic):
// same concrete Go types, ints as big integers, floats by bit pattern, containers in
// insertion order, identical aliasing of lists, dicts, sets and host objects.
func Iso(a, b starlark.Value) error {
	st := &isoState{ab: map[starlark.Value]starlark.Value{}, ba: map[starlark.Value]starlark.Value{}}
	return st.iso(a, b, "$")
}

type isoState struct {
	ab, ba     map[starlark.Value]starlark.Value
	activeHost map[*HostObj]bool // host objects whose arguments are being compared
}

func (s *isoState) ident(a, b starlark.Value, path string) (seen bool, err error) {
	if x, ok := s.ab[a]; ok {
		if x != b {
			return true, fmt.Errorf("%s: aliasing differs (left node seen before, paired with another right node)", path)
		}
		return true, nil
	}
	if _, ok := s.ba[b]; ok {
		return true, fmt.Errorf("%s: aliasing differs (right node seen before, left node is new)", path)
	}
	s.ab[a], s.ba[b] = b, a
	return false, nil
}

func (s *isoState) iso(a, b starlark.Value, path string) error {
	if a == nil || b == nil {
		if a == nil && b == nil {
			return nil
		}
		return fmt.Errorf("%s: nil vs %v", path, b)
	}
	switch a := a.(type) {
	case starlark.NoneType:
		if _, ok := b.(starlark.NoneType); !ok {
			return fmt.Errorf("%s: None vs %s", path, b.Type())
		}
	case starlark.Bool:
		bb, ok := b.(starlark.Bool)
		if !ok || a != bb {
			return fmt.Errorf("%s: %v vs %v (%s)", path, a, b, b.Type())
		}
	case starlark.Int:
		bb, ok := b.(starlark.Int)
		if !ok || a.BigInt().Cmp(bb.BigInt()) != 0 {
			return fmt.Errorf("%s: int %v vs %s %v", path, a, b.Type(), Describe(b))
		}
	case starlark.Float:
		bb, ok := b.(starlark.Float)
		if !ok || math.Float64bits(float64(a)) != math.Float64bits(float64(bb)) {
			return fmt.Errorf("%s: float %v vs %s %v", path, a, b.Type(), Describe(b))
		}
	case starlark.String:
		bb, ok := b.(starlark.String)
		if !ok || a != bb {
			return fmt.Errorf("%s: string len %d vs %s %s", path, len(a), b.Type(), Describe(b))
		}
	case starlark.Bytes:
		bb, ok := b.(starlark.Bytes)
		if !ok || a != bb {
			return fmt.Errorf("%s: bytes len %d vs %s %s", path, len(a), b.Type(), Describe(b))
		}
	case starlark.Tuple:
		bb, ok := b.(starlark.Tuple)
		if !ok {
			return fmt.Errorf("%s: tuple vs %s", path, b.Type())
		}
		if len(a) != len(bb) {
			return fmt.Errorf("%s: tuple len %d vs %d", path, len(a), len(bb))
		}
		for i := range a {
			if err := s.iso(a[i], bb[i], fmt.Sprintf("%s(%d)", path, i)); err != nil {
				return err
			}
		}
	case *starlark.List:
		bb, ok := b.(*starlark.List)
		if !ok {
			return fmt.Errorf("%s: list vs %s", path, b.Type())
		}
		if seen, err := s.ident(a, bb, path); seen || err != nil {
			return err
		}
		if a.Len() != bb.Len() {
			return fmt.Errorf("%s: list len %d vs %d", path, a.Len(), bb.Len())
		}
		for i := 0; i < a.Len(); i++ {
			if err := s.iso(a.Index(i), bb.Index(i), fmt.Sprintf("%s[%d]", path, i)); err != nil {
				return err
			}
		}
	case *starlark.Dict:
		bb, ok := b.(*starlark.Dict)
		if !ok {
			return fmt.Errorf("%s: dict vs %s", path, b.Type())
		}
		if seen, err := s.ident(a, bb, path); seen || err != nil {
			return err
		}
		ai, bi := a.Items(), bb.Items()
		if len(ai) != len(bi) {
			return fmt.Errorf("%s: dict len %d vs %d", path, len(ai), len(bi))
		}
		for i := range ai {
			if err := s.iso(ai[i][0], bi[i][0], fmt.Sprintf("%s.key%d", path, i)); err != nil {
				return err
			}
			if err := s.iso(ai[i][1], bi[i][1], fmt.Sprintf("%s.val%d", path, i)); err != nil {
				return err
			}
		}
	case *starlark.Set:
		bb, ok := b.(*starlark.Set)
		if !ok {
			return fmt.Errorf("%s: set vs %s", path, b.Type())
		}
		if seen, err := s.ident(a, bb, path); seen || err != nil {
			return err
		}
		ae, be := setElems(a), setElems(bb)
		if len(ae) != len(be) {
			return fmt.Errorf("%s: set len %d vs %d", path, len(ae), len(be))
		}
		for i := range ae {
			if err := s.iso(ae[i], be[i], fmt.Sprintf("%s{%d}", path, i)); err != nil {
				return err
			}
		}
	case *HostObj:
		bb, ok := b.(*HostObj)
		if !ok {
			return fmt.Errorf("%s: hostobj vs %s", path, b.Type())
		}
		if s.activeHost[a] {
			// a host object reached again through its own arguments decodes to the stand-in host.Rec(name)
			if bb.Name != "Rec" || len(bb.Args) != 1 || bb.Args[0] != starlark.String(a.Name) {
				return fmt.Errorf("%s: recursive reference to host.%s decoded as %s", path, a.Name, Describe(bb))
			}
			return nil
		}
		if seen, err := s.ident(a, bb, path); seen || err != nil {
			return err
		}
		if a.Name != bb.Name {
			return fmt.Errorf("%s: hostobj name %q vs %q", path, a.Name, bb.Name)
		}
		if s.activeHost == nil {
			s.activeHost = map[*HostObj]bool{}
		}
		s.activeHost[a] = true
		err := s.iso(a.Args, bb.Args, path+".args")
		delete(s.activeHost, a)
		return err
	default:
		return fmt.Errorf("%s: unsupported left type %T", path, a)
	}
	return nil
}

func setElems(s *starlark.Set) []starlark.Value {
	var out []starlark.Value
	it := s.Iterate()
	defer it.Done()
	var v starlark.Value
	for it.Next(&v) {
		out = append(out, v)
	}
	return out
}

func trunc(s string) string {
	if len(s) > 60 {
		return s[:60] + "…"
	}
	return s
}

// Describe renders a value compactly for evidence samples and replay files.
func Describe(v starlark.Value) string {
	seen := map[starlark.Value]bool{}
	var b strings.Builder
	describe(&b, v, seen, 0)
	s := b.String()
	if len(s) > 400 {
		s = s[:400] + "…"
	}
	return s
}

func describe(b *strings.Builder, v starlark.Value, seen map[starlark.Value]bool, depth int) {
	if b.Len() > 500 {
		return
	}
	if v == nil {
		b.WriteString("<nil>")
		return
	}
	if depth > 40 {
		// a decoded value can be cyclic through a tuple if the decoder is broken
		b.WriteString("<deeper…>")
		return
	}
	switch v := v.(type) {
	case starlark.Tuple:
		fmt.Fprintf(b, "tuple%d(", len(v))
		for i, e := range v {
			if i >= 4 {
				b.WriteString("…")
				break
			}
			describe(b, e, seen, depth+1)
			b.WriteString(",")
		}
		b.WriteString(")")
	case *starlark.List:
		if seen[v] {
			fmt.Fprintf(b, "<alias list%d>", v.Len())
			return
		}
		seen[v] = true
		fmt.Fprintf(b, "list%d[", v.Len())
		for i := 0; i < v.Len() && i < 4; i++ {
			describe(b, v.Index(i), seen, depth+1)
			b.WriteString(",")
		}
		b.WriteString("]")
	case *starlark.Dict:
		if seen[v] {
			fmt.Fprintf(b, "<alias dict%d>", v.Len())
			return
		}
		seen[v] = true
		fmt.Fprintf(b, "dict%d{", v.Len())
		for i, kv := range v.Items() {
			if i >= 3 {
				break
			}
			describe(b, kv[0], seen, depth+1)
			b.WriteString(":")
			describe(b, kv[1], seen, depth+1)
			b.WriteString(",")
		}
		b.WriteString("}")
	case *starlark.Set:
		if seen[v] {
			fmt.Fprintf(b, "<alias set%d>", v.Len())
			return
		}
		seen[v] = true
		fmt.Fprintf(b, "set%d", v.Len())
	case *HostObj:
		if seen[v] {
			b.WriteString("<alias host>")
			return
		}
		seen[v] = true
		fmt.Fprintf(b, "host.%s", v.Name)
		describe(b, v.Args, seen, depth+1)
	case starlark.String:
		if len(v) > 20 {
			fmt.Fprintf(b, "str[len=%d]", len(v))
		} else {
			fmt.Fprintf(b, "%q", string(v))
		}
	case starlark.Bytes:
		if len(v) > 20 {
			fmt.Fprintf(b, "bytes[len=%d]", len(v))
		} else {
			fmt.Fprintf(b, "b%q", string(v))
		}
	case starlark.NoneType, starlark.Bool, starlark.Int, starlark.Float:
		b.WriteString(trunc(v.String()))
	default:
		b.WriteString("<" + v.Type() + ">")
	}
}
