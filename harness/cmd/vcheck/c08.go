package main

import (
	"fmt"
	"math/rand/v2"
	"os"
	"path/filepath"
	"runtime"
	"sort"
	"strings"
	"time"

	"github.com/pgavlin/dawn/verifharness/core"
	"github.com/pgavlin/dawn/verifharness/pj"
)

func init() {
	register("C08", "exploration", runC08)
	registerCase("c08", c08Case)
}

// A feature is a piece of module text, an expression the target function evaluates (so that it
// references the feature), and mutation points: each changes something the function references.
type c08Mut struct{ what, old, new string }

type c08Feature struct {
	name  string
	setup string
	expr  string
	muts  []c08Mut
}

// ladder: a group of mutually recursive helpers with joins - a0 -> b0|c0 -> a1 -> ... -> aN -> a0. The group has 3N+1
// functions and 2^N paths through it: a fingerprint computation that walks paths instead of functions does not end.
func c08Ladder(n int) string {
	var b strings.Builder
	for i := 0; i < n; i++ {
		fmt.Fprintf(&b, "def lad_a%d(x):\n    return lad_b%d(x) if x %% 2 else lad_c%d(x)\n", i, i, i)
		fmt.Fprintf(&b, "def lad_b%d(x):\n    return lad_a%d(x) + 1\n", i, i+1)
		fmt.Fprintf(&b, "def lad_c%d(x):\n    return lad_a%d(x) + 2\n", i, i+1)
	}
	fmt.Fprintf(&b, "def lad_a%d(x):\n    return 7 if x <= 0 else lad_a0(x - 2)\n", n)
	return b.String()
}

// clique: k helpers each of which calls every other one (guarded so that execution ends)
func c08Clique(k int) string {
	var b strings.Builder
	for i := 0; i < k; i++ {
		fmt.Fprintf(&b, "def clq%d(x):\n    if x <= 0:\n        return %d\n    return ", i, i)
		for j := 0; j < k; j++ {
			if j != i {
				fmt.Fprintf(&b, "clq%d(x - 1) + ", j)
			}
		}
		b.WriteString("0\n")
	}
	return b.String()
}

func c08Features() []c08Feature {
	big := func(n int) string { return fmt.Sprintf("list(range(%d))", n) }
	return []c08Feature{
		{"recursion", "def fact(n):\n    return 1 if n <= 1 else n * fact(n - 1)\n", "fact(5)",
			[]c08Mut{{"literal in recursive function", "n <= 1", "n <= 2"}, {"operator in recursive function", "n * fact", "n + fact"}}},
		{"mutual-recursion", "def is_even(n):\n    return True if n == 0 else is_odd(n - 1)\ndef is_odd(n):\n    return False if n == 0 else is_even(n - 1)\n", "is_even(6)",
			[]c08Mut{{"literal in mutually recursive callee", "return False if n == 0", "return False if n == 1"}}},
		{"closure-over-cell", "def adder(k):\n    def add(x):\n        return x + k\n    return add\nadd7 = adder(7)\n", "add7(1)",
			[]c08Mut{{"captured variable", "adder(7)", "adder(300)"}, {"captured variable 2-byte collision", "adder(7)", "adder(65580)"}}},
		{"default-immutable", "def scaled(x, factor=256):\n    return x * factor\n", "scaled(2)",
			[]c08Mut{{"default parameter value", "factor=256", "factor=65536"}, {"default parameter value (wide)", "factor=256", "factor=4294967296"}}},
		{"default-mutable", "def collect(x, acc=[1, 2, 3]):\n    return acc + [x]\n", "collect(9)",
			[]c08Mut{{"mutable default element", "acc=[1, 2, 3]", "acc=[1, 2, 4]"}, {"mutable default length", "acc=[1, 2, 3]", "acc=[1, 2, 3, 4]"}}},
		{"lambda", "twice = lambda x: x * 2\n", "twice(21)",
			[]c08Mut{{"literal in lambda", "x * 2", "x * 3"}}},
		{"comprehension", "def squares(n):\n    return [i * i for i in range(n) if i % 2 == 0]\n", "squares(6)",
			[]c08Mut{{"operator in comprehension", "i * i", "i + i"}, {"literal in comprehension", "i % 2 == 0", "i % 3 == 0"}}},
		{"dict-global", "TABLE = {\"a\": [1, 2], \"b\": {\"c\": (3, 4.5, None)}}\n", "TABLE[\"b\"]",
			[]c08Mut{{"nested container element", "(3, 4.5, None)", "(3, 4.75, None)"}, {"container key added", "{\"a\": [1, 2],", "{\"a\": [1, 2], \"z\": 0,"}}},
		{"string-global", "GREETING = \"hello, world\"\n", "GREETING",
			[]c08Mut{{"string edit", "hello, world", "hello, World"}, {"string to bytes", "GREETING = \"hello, world\"", "GREETING = b\"hello, world\""}}},
		{"big-list", "BIGL = " + big(5000) + "\n", "len(BIGL)",
			[]c08Mut{{"large list length", big(5000), big(5001)}}},
		{"big-string", "BIGS = \"x\" * 100000\n", "len(BIGS)",
			[]c08Mut{{"large string content", "\"x\" * 100000", "\"x\" * 99999 + \"y\""}}},
		{"deep-nesting", "DEEP = [[[[[[[[[[[[[[[[[[[[1]]]]]]]]]]]]]]]]]]]]\n", "DEEP[0]",
			[]c08Mut{{"deeply nested element", "[[[[[[[[[[[[[[[[[[[[1]]]]]]]]]]]]]]]]]]]]", "[[[[[[[[[[[[[[[[[[[[2]]]]]]]]]]]]]]]]]]]]"}}},
		{"set-global", "SEEN = set([1, 2, 3])\n", "len(SEEN)",
			[]c08Mut{{"set element", "set([1, 2, 3])", "set([1, 2, 4])"}}},
		{"predeclared-host", "", "host.os", nil},
		{"predeclared-package", "", "package", nil},
		{"predeclared-cache", "CACHE = Cache()\n", "CACHE", nil},
		{"predeclared-builtins", "", "[path, label, contains, glob, fail, target, parse_flag][0:0]", nil},
		{"universals", "", "[len, str, sorted, zip, enumerate, min, max, type, hasattr, dir, print][0:0]", nil},
		{"flag-value", "MODE = parse_flag(\"mode\", default=\"fast\")\n", "MODE",
			[]c08Mut{{"flag default", "default=\"fast\"", "default=\"slow\""}}},
		{"helper-chain", "def h1(x):\n    return h2(x) + 1\ndef h2(x):\n    return h3(x) * 2\ndef h3(x):\n    return x - 70000\n", "h1(3)",
			[]c08Mut{{"callee changed two levels down", "x - 70000", "x - 70001"}, {"callee changed", "h3(x) * 2", "h3(x) * 4"}}},
		{"call-other", "def alt_a(x):\n    return x + 1\ndef alt_b(x):\n    return x + 1\ndef pick(x):\n    return alt_a(x)\n", "pick(1)",
			[]c08Mut{{"callee replaced by an identical-looking function with another name", "return alt_a(x)", "return alt_b(x)"}}},
		{"attr-name", "REC = {\"left\": 1, \"right\": 2}\ndef side(r):\n    return r.get(\"left\")\n", "side(REC)",
			[]c08Mut{{"attribute/key name", "r.get(\"left\")", "r.get(\"right\")"}}},
		{"extra-statement", "def steps(x):\n    y = x + 1\n    return y\n", "steps(1)",
			[]c08Mut{{"extra statement", "    y = x + 1\n", "    y = x + 1\n    y = y + 0\n"}}},
		{"float-global", "RATIO = 0.1\n", "RATIO", []c08Mut{{"float literal", "RATIO = 0.1", "RATIO = 0.30000000000000004"}}},
		{"bigint-global", "HUGE = 18446744073709551616\n", "HUGE", []c08Mut{{"big integer literal", "18446744073709551616", "18446744073709551617"}}},
		{"negative-int", "NEG = -2147483648\n", "NEG", []c08Mut{{"int32 boundary literal", "-2147483648", "-2147483649"}}},
		{"aliased-globals", "COMMON = [\"-Wall\"]\nDEBUG = [\"-g\"]\nFLAGS = {\"common\": COMMON, \"debug\": DEBUG, \"test\": DEBUG}\n", "FLAGS",
			[]c08Mut{{"one of two aliases of a global list replaced by an equal-looking other list", "\"test\": DEBUG", "\"test\": [\"-Wall\"]"}}},
		{"recursion-then-aliasing", "def depth(n):\n    return 0 if n == 0 else 1 + depth(n - 1)\nSHARED_A = [\"x\"]\nSHARED_B = [\"y\"]\nTABLE2 = {\"p\": SHARED_A, \"q\": SHARED_B, \"r\": SHARED_B}\n", "[depth(3), TABLE2]",
			[]c08Mut{{"alias after a recursive helper", "\"r\": SHARED_B", "\"r\": [\"x\"]"}, {"second alias after a recursive helper", "\"q\": SHARED_B", "\"q\": SHARED_A"}}},
		{"mutual-recursion-then-aliasing", "def ping(n):\n    return 0 if n == 0 else pong(n - 1)\ndef pong(n):\n    return 1 if n == 0 else ping(n - 1)\nLST1 = [1]\nLST2 = [2]\nPAIRS = [LST1, LST2, LST2, LST1]\n", "[ping(4), PAIRS]",
			[]c08Mut{{"alias order after mutually recursive helpers", "[LST1, LST2, LST2, LST1]", "[LST1, LST2, LST1, LST1]"}}},
		{"long-literal-in-body", "def banner():\n    return \"" + strings.Repeat("0123456789abcdef", 100) + "\"\n", "len(banner())",
			[]c08Mut{{"one character of a 1600-byte literal inside a function body", "0123456789abcdef\"\n", "0123456789abcdeX\"\n"}}},
		{"long-bytes-literal-in-nested-function", "def outer_lit():\n    def inner_lit():\n        return b\"" + strings.Repeat("zyxw", 400) + "\"\n    return inner_lit\nINNER_LIT = outer_lit()\n", "len(INNER_LIT())",
			[]c08Mut{{"one byte of a long bytes literal in a nested function", "zyxw\"\n    return inner_lit", "zyxW\"\n    return inner_lit"}}},
		{"tuple-prefix-slice", "VERSION = (1, 4, 2)\nSERIES = VERSION[:2]\n", "[VERSION, SERIES]",
			[]c08Mut{{"slice bound of a tuple sharing storage with another referenced tuple", "VERSION[:2]", "VERSION[:1]"}}},
		{"tuple-slice-then-full", "FULLT = (7, 8, 9)\nHEAD = FULLT[:1]\n", "[HEAD, FULLT]",
			[]c08Mut{{"element beyond a prefix slice referenced first", "(7, 8, 9)", "(7, 8, 10)"}}},
		// several nested functions of one enclosing function that share a name: every lambda is called "lambda", and a def may
		// be repeated in both arms of an if; the constants 110/120/130 already occur in SAME_CONSTS, so the edits do not move
		// the module's constant table
		{"same-name-lambdas", "SAME_CONSTS = [110, 120, 130]\ndef choose(x):\n    lo = lambda q: q + 110\n    hi = lambda q: q + 120\n    return lo(x) + hi(x)\n", "choose(1)",
			[]c08Mut{{"operator in the first of two lambdas of one function", "q + 110", "q - 110"}, {"literal in the first of two lambdas of one function", "q + 110", "q + 130"},
				{"operator in the last of two lambdas of one function", "q + 120", "q - 120"}}},
		{"same-name-defs", "ARM_CONSTS = [3, 5, 9]\ndef pick_arm(flag):\n    if flag:\n        def impl(w):\n            return w * 3\n    else:\n        def impl(w):\n            return w * 5\n    return impl\n", "pick_arm(True)(2)",
			[]c08Mut{{"operator in the first of two same-named nested defs", "w * 3", "w + 3"}, {"literal in the first of two same-named nested defs", "w * 3", "w * 9"},
				{"literal in the second of two same-named nested defs", "w * 5", "w * 9"}}},
		{"three-lambdas-builtin", "def measure(xs):\n    a = lambda r: len(r)\n    b = lambda r: str(r)\n    c = lambda r: repr(r)\n    return [a(xs), b(xs), c(xs)]\n", "measure([1])",
			[]c08Mut{{"builtin called by the first of three lambdas", "lambda r: len(r)", "lambda r: repr(r)"}, {"builtin called by the middle lambda", "lambda r: str(r)", "lambda r: len(r)"}}},
		// tables of values whose encodings carry 4- and 8-byte fields, long enough to cross any buffer boundary of the codec
		{"float-table", "RATIOS = [i * 0.5 for i in range(2500)]\n", "len(RATIOS)",
			[]c08Mut{{"one element of a table of 2500 floats", "i * 0.5 for i", "i * 0.25 for i"}}},
		{"wide-int-table", "OFFSETS = [70001 + i * 65537 for i in range(2000)]\n", "len(OFFSETS)",
			[]c08Mut{{"the elements of a table of 2000 four-byte integers", "70001 + i", "70002 + i"}}},
		{"huge-int-table", "HUGES = [(1 << 70) + i for i in range(400)]\n", "len(HUGES)",
			[]c08Mut{{"the elements of a table of 400 big integers", "(1 << 70) + i", "(1 << 71) + i"}}},
		{"mutual-recursion-ladder", c08Ladder(40), "lad_a0(0)",
			[]c08Mut{{"literal at the far end of a 40-rung ladder of mutually recursive helpers", "return 7 if x <= 0", "return 8 if x <= 0"}, {"literal in the middle of the ladder", "return lad_a21(x) + 2", "return lad_a21(x) + 3"}}},
		{"mutual-recursion-clique", c08Clique(12), "clq0(1)",
			[]c08Mut{{"literal in one of 12 helpers that all call each other", "        return 5\n", "        return 55\n"}}},
		{"tuple-sizes", "TUP = ((), (1,), (1, 2), (1, 2, 3), (1, 2, 3, 4))\n", "TUP", []c08Mut{{"tuple element", "(1, 2, 3, 4))", "(1, 2, 3, 5))"}}},
	}
}

type c08Program struct {
	late  map[int]bool // features whose text follows the target declaration
	feats []c08Feature
	extra string // extra text (named scenarios)
}

func (p *c08Program) text() string {
	var b strings.Builder
	b.WriteString("# generated program\n")
	var exprs []string
	for i, f := range p.feats {
		if !p.late[i] {
			b.WriteString(f.setup)
		}
		exprs = append(exprs, f.expr)
	}
	b.WriteString(p.extra)
	fmt.Fprintf(&b, "@target()\ndef t0(self):\n    v.body(\"//:t0\", [%s], [], \"\")\n", strings.Join(exprs, ", "))
	// some helpers and globals are bound only after the target that uses them has been declared (legal: names are
	// resolved when the body runs); they are part of what the function references all the same
	for i, f := range p.feats {
		if p.late[i] {
			b.WriteString(f.setup)
		}
	}
	// a second target that references the first target object and a nested function
	b.WriteString("@target(deps=[\":t0\"])\ndef t1(self):\n    def inner(q):\n        return [q, t0]\n    v.body(\"//:t1\", [len(inner(1))], [], \"\")\n")
	return b.String()
}

func c08Write(root, text string) {
	os.MkdirAll(root, 0o755)
	os.WriteFile(filepath.Join(root, "dawn.toml"), []byte("name = \"c08\"\n"), 0o644)
	os.WriteFile(filepath.Join(root, "BUILD.dawn"), []byte(text), 0o644)
}

func stampsOf(root string) map[string]string {
	out := map[string]string{}
	for rel, r := range pj.Records(root) {
		if strings.HasPrefix(rel, "targets/") {
			out[rel] = r.Stamp
		}
	}
	return out
}

func executedSince(s *pj.Session, from int) []string {
	var out []string
	for _, le := range s.ReadLog(from) {
		if le.Kind == "S" {
			out = append(out, le.Label)
		}
	}
	sort.Strings(out)
	return out
}

// c08Named are deterministic scenarios for constructs kept out of the random generator.
var c08Named = map[string]struct {
	setup, expr string
	mut         c08Mut
}{
	"named/cyclic-global":             {"CYC = [1]\nCYC.append(CYC)\n", "len(CYC)", c08Mut{"element of a self-containing list", "CYC = [1]", "CYC = [2]"}},
	"named/int-to-equal-float":        {"ONE = 1\n", "ONE", c08Mut{"1 -> 1.0", "ONE = 1\n", "ONE = 1.0\n"}},
	"named/global-rebound-to-builtin": {"FN = len\n", "FN([1])", c08Mut{"global rebound from one builtin to another", "FN = len", "FN = str"}},
	"named/recursive-helper":          {"def fact(n):\n    return 1 if n <= 1 else n * fact(n - 1)\n", "fact(5)", c08Mut{"literal in recursive helper", "n <= 1", "n <= 2"}},
	// The inner function refers to itself through a cell. The interpreter dawn depends on (not part of
	// pgavlin/dawn's tree) overflows the stack while freezing the module's globals, i.e. the module
	// does not load; C08 quantifies over functions that load, so this is counted, not reported.
	"named/nested-recursive-closure": {"def mk_count():\n    def count(n):\n        return 0 if n == 0 else 1 + count(n - 1)\n    return count\ncounter = mk_count()\n", "counter(4)", c08Mut{"literal in nested recursive closure", "1 + count", "2 + count"}},
	"named/bool-to-equal-int-is-not": {"FLAGV = True\n", "FLAGV", c08Mut{"True -> 1", "FLAGV = True", "FLAGV = 1"}},
}

func c08Case(c *core.Ctx, id string) {
	if strings.HasPrefix(id, "gprog/") {
		c08GenCase(c, id)
		return
	}
	base := filepath.Join(c.Scratch, fmt.Sprintf("c08-%d", os.Getpid()))
	os.RemoveAll(base)
	defer os.RemoveAll(base)
	s := pj.NewSession(filepath.Join(base, "a"))
	build := childBuilder(c, 0)
	scen := ""
	var prog c08Program
	var muts []c08Mut
	if n, ok := c08Named[id]; ok {
		scen = id
		prog.feats = []c08Feature{{name: id, setup: n.setup, expr: n.expr}}
		muts = []c08Mut{n.mut}
	} else {
		r := c.Rand(id)
		all := c08Features()
		r.Shuffle(len(all), func(i, j int) { all[i], all[j] = all[j], all[i] })
		k := 1 + r.IntN(6)
		prog.feats = all[:k]
		prog.late = map[int]bool{}
		for i := range prog.feats {
			if r.IntN(3) == 0 {
				prog.late[i] = true
			}
		}
		for _, f := range prog.feats {
			muts = append(muts, f.muts...)
		}
		r.Shuffle(len(muts), func(i, j int) { muts[i], muts[j] = muts[j], muts[i] })
		if len(muts) > 3 {
			muts = muts[:3]
		}
	}
	names := []string{}
	for _, f := range prog.feats {
		names = append(names, f.name)
	}
	text := prog.text()
	viol := func(sym string, w map[string]any) {
		w["features"], w["build_file"] = names, text
		c.Violation(id, scen, sym, w)
	}
	// classify a failed/killed build
	judge := func(step string, res pj.BuildRes, alive bool) bool {
		switch {
		case !alive && strings.Contains(res.RunErr, "in-interpreter-freeze-during-module-load") && scen == "named/nested-recursive-closure" && step == "first build":
			c.Count("programs_that_do_not_load_interpreter_freeze_overflow", 1)
			return false
		case !alive:
			viol("fingerprinting-kills-the-process", map[string]any{"step": step, "error": headLinesStr(res.RunErr, 12)})
			return false
		case res.LoadErr != "":
			viol("load-fails", map[string]any{"step": step, "error": res.LoadErr})
			return false
		case strings.Contains(res.RunErr, "function environment") || eventErr(res.Events, "function environment") != "":
			viol("fingerprint-computation-or-comparison-fails", map[string]any{"step": step, "error": res.RunErr + " " + eventErr(res.Events, "function environment")})
			return false
		case res.RunErr != "":
			viol("build-fails", map[string]any{"step": step, "error": res.RunErr})
			return false
		}
		return true
	}
	c08Write(s.Root, text)
	from := s.LogLen()
	res, alive := build(pj.BuildReq{Root: s.Root, Target: "//:t1"}, nil)
	c.Count("builds", 1)
	if !judge("first build", res, alive) {
		c.Eval("")
		return
	}
	if ex := executedSince(s, from); fmt.Sprint(ex) != "[//:t0 //:t1]" {
		viol("first-build-did-not-execute-both-targets", map[string]any{"executed": ex})
		return
	}
	st1 := stampsOf(s.Root)
	// second build of identical text in a fresh process: nothing may run, stamps equal
	from = s.LogLen()
	res, alive = build(pj.BuildReq{Root: s.Root, Target: "//:t1"}, nil)
	c.Count("builds", 1)
	if !judge("second build of identical text", res, alive) {
		c.Eval("")
		return
	}
	if ex := executedSince(s, from); len(ex) > 0 {
		viol("second-load-of-identical-text-re-executes", map[string]any{"executed": ex})
		return
	}
	if st2 := stampsOf(s.Root); fmt.Sprint(st1) != fmt.Sprint(st2) {
		viol("fingerprint-differs-between-two-loads-of-identical-text", map[string]any{"records": sortedKeysS(st1)})
		return
	}
	// identical text in another directory, loaded in this process
	s2 := pj.NewSession(filepath.Join(base, "other-dir-b"))
	c08Write(s2.Root, text)
	r3 := pj.Build(pj.BuildReq{Root: s2.Root, Target: "//:t1"})
	c.Count("builds", 1)
	if r3.LoadErr == "" && r3.RunErr == "" {
		if st3 := stampsOf(s2.Root); fmt.Sprint(stripRun(st1)) != fmt.Sprint(stripRun(st3)) {
			viol("fingerprint-differs-between-two-loads-of-identical-text", map[string]any{"where": "other directory, other process"})
			return
		}
	}
	// mutations of something the function references must be noticed
	cur := text
	for _, m := range muts {
		if !strings.Contains(cur, m.old) {
			continue
		}
		next := strings.Replace(cur, m.old, m.new, 1)
		c08Write(s.Root, next)
		from = s.LogLen()
		res, alive = build(pj.BuildReq{Root: s.Root, Target: "//:t1"}, nil)
		c.Count("builds", 1)
		c.Count("mutations", 1)
		if !judge("build after mutation: "+m.what, res, alive) {
			c.Eval("")
			return
		}
		if ex := executedSince(s, from); !contains2(ex, "//:t0") {
			viol("change-to-a-referenced-value-not-detected", map[string]any{"mutation": m.what, "old": m.old, "new": m.new, "executed": ex})
			return
		}
		c.Distinct(id + "/" + m.what)
		cur = next
	}
	c.Eval(id)
	c.SampleKey("program", map[string]any{"case": id, "features": names, "mutations": len(muts)})
}

func eventErr(evs []pj.Event, sub string) string {
	for _, e := range evs {
		if e.Kind == "TargetFailed" && strings.Contains(e.Err, sub) {
			return e.Err
		}
	}
	return ""
}

func contains2(xs []string, x string) bool {
	for _, y := range xs {
		if y == x {
			return true
		}
	}
	return false
}

func sortedKeysS(m map[string]string) []string {
	var out []string
	for k := range m {
		out = append(out, k)
	}
	sort.Strings(out)
	return out
}

// stripRun: stamps are compared without the per-execution parts (none are stored in "stamp").
func stripRun(m map[string]string) map[string]string { return m }

func runC08(c *core.Ctx) {
	c.SetRule("generated BUILD files combining 1-6 of 28 features (recursion, mutual recursion, nested recursive closures, closures over cells, mutable/immutable defaults, lambdas, " +
		"comprehensions, every predeclared value, universals, target objects, 5000-element lists, 100 kB strings, deep nesting, big ints, floats, sets, tuples of every size class) " +
		"built in fresh child processes: first build, second build of identical text (nothing may run, stamps equal), identical text in another directory (stamps equal), then up to 3 " +
		"mutations of something the function references (each must re-execute the target); grammar-generated programs (gprog: nested defs, lambdas, comprehensions, defaults, keyword-only " +
		"parameters, *args/**kwargs, recursion, closures over locals, same-named nested functions, globals of every literal type) whose every literal/operator/default/callee/global reference " +
		"is a slot: up to 4 slot mutations each, a mutated slot owned by something reachable from the target must re-execute it; " +
		"fatal errors are attributed through the journal; named scenarios for exotic constructs; " +
		"non-trivial = every program; distinct = distinct (program, mutation)")
	c.Assume("an edit that changes nothing the function references (comments, unrelated code) is C02's business, not C08's")
	var ids []string
	for id := range c08Named {
		ids = append(ids, id)
	}
	sort.Strings(ids)
	n := c.N(300, 8000)
	for i := 0; i < n; i++ {
		ids = append(ids, fmt.Sprintf("prog/%d", i))
	}
	for i, ng := 0, c.N(150, 6000); i < ng; i++ {
		ids = append(ids, fmt.Sprintf("gprog/%d", i))
	}
	var want []string
	for _, id := range ids {
		if c.Want(id) {
			want = append(want, id)
		}
	}
	workers := runtime.NumCPU() - 2
	if workers > 14 {
		workers = 14
	}
	c.RunSharded(want, core.ShardOpts{Mode: "c08", Workers: workers, Timeout: 30 * time.Minute, PerCaseTime: 20 * time.Second})
	_ = rand.Int
}
