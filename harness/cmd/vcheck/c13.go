package main

import (
	"fmt"
	"os"
	"path/filepath"
	"runtime"
	"sort"
	"strings"
	"time"

	"github.com/pgavlin/dawn/verifharness/core"
	"github.com/pgavlin/dawn/verifharness/pj"
)

func init() {
	register("C13", "exploration", func(c *core.Ctx) { runTwin(c, "C13") })
	register("C14", "exploration", func(c *core.Ctx) { runTwin(c, "C14") })
	registerCase("twin-C13", func(c *core.Ctx, id string) { c13Case(c, id) })
	registerCase("twin-C14", func(c *core.Ctx, id string) { c14Case(c, id) })
}

func runTwin(c *core.Ctx, which string) {
	if which == "C13" {
		c.SetRule("generated projects x histories (edits, full/partial/failing builds) with dry runs inserted at random points; per dry run: the execution log must stay empty, " +
			"the hash of the project tree and of .dawn/build must not change across Run, the set of 'evaluating' labels must equal that of the real build performed next " +
			"(superset differing only downstream of the failure when that build fails), and a twin copy that skips the dry run must execute the same bodies and produce the same outputs; " +
			"non-trivial = a dry run that reports at least one target to evaluate; distinct = distinct (project, step)")
	} else {
		c.SetRule("twin histories over generated projects with target/source additions and removals: GC (after a full load, or an index-preferring load as `dawn gc` does) is inserted at " +
			"random points of one twin only; per GC: every record file of an existing target/source survives byte-identical, records of removed labels and planted stray temporaries " +
			"are gone (full load), nothing outside .dawn/build changes; per later build both twins must execute the same bodies, and final outputs must be equal; " +
			"non-trivial = a GC that removed something or a build after a GC that executed something; distinct = distinct (project, step)")
	}
	n := c.N(120, 3000)
	var cases []string
	for i := 0; i < n; i++ {
		if id := fmt.Sprintf("twin/%d", i); c.Want(id) {
			cases = append(cases, id)
		}
	}
	workers := runtime.NumCPU() - 2
	if workers > 14 {
		workers = 14
	}
	c.RunSharded(cases, core.ShardOpts{Mode: "twin-" + which, Workers: workers, Timeout: 40 * time.Minute, PerCaseTime: 20 * time.Second})
}

func evaluatingSet(evs []pj.Event) []string {
	m := map[string]bool{}
	for _, e := range evs {
		if e.Kind == "TargetEvaluating" {
			m[e.Label] = true
		}
	}
	return sortedKeys(m)
}

func failedSet(evs []pj.Event) map[string]bool {
	m := map[string]bool{}
	for _, e := range evs {
		if e.Kind == "TargetFailed" {
			m[e.Label] = true
		}
	}
	return m
}

func c13Case(c *core.Ctx, id string) {
	g := &pj.Gen{R: c.Rand(id)}
	base := filepath.Join(c.Scratch, "c13-"+strings.ReplaceAll(id, "/", "-"))
	defer os.RemoveAll(base)
	s := pj.NewSession(filepath.Join(base, "a"))
	p := g.Project()
	e := pj.NewEngine(s, p, g)
	r := g.R
	nsteps := c.N(10, 20)
	viol := func(sym string, w map[string]any) {
		w["history"] = e.Script()
		c.Violation(id, "", sym, w)
	}
	for step := 0; step < nsteps; step++ {
		for k := r.IntN(3); k > 0 && step > 0; k-- {
			e.Edit("")
		}
		target := pickTarget(e)
		var failing []string
		if r.IntN(5) == 0 {
			ts := e.P.AllTargets()
			failing = []string{ts[r.IntN(len(ts))].Label()}
		}
		always := r.IntN(12) == 0
		if r.IntN(6) == 0 {
			// an interrupted build (killed inside or right around one body), possibly after its
			// output was deleted: leaves "must re-run" state behind for the dry run to respect
			if r.IntN(2) == 0 {
				e.Edit("output-delete")
			}
			ts := e.P.AllTargets()
			e.ChildBuild = childBuilder(c, 0)
			e.Build(target, pj.BuildOpt{Child: true, NoCheck: true, Always: always,
				Env: []string{fmt.Sprintf("VERIF_CRASH=%s|%s|1", []string{"body.start", "body.mid", "body.end", "eval.after-body"}[r.IntN(4)], ts[r.IntN(len(ts))].Label())}})
			c.Count("interrupted_builds", 1)
			c.Eval("")
			continue
		}
		if r.IntN(2) == 0 {
			// plain build step
			if _, res, _ := e.Build(target, pj.BuildOpt{Failing: failing, Always: always}); res.LoadErr != "" {
				viol("generated-project-does-not-load", map[string]any{"error": res.LoadErr})
				return
			}
			c.Eval("")
			continue
		}
		// twin copy taken before the dry run
		twinDir := filepath.Join(base, "b")
		os.RemoveAll(twinDir)
		pj.CopyDir(s.Dir, twinDir)
		// now and then, first a dry run under a fault: a directory the up-to-date check looks into (the directory of a
		// generated file, a source directory) is for the moment a regular file, so that check fails with an error
		// instead of answering. Such a dry run may fail, but it is a dry run all the same: no body, no change on disk.
		if r.IntN(5) == 0 {
			var dirs []string
			for _, l := range e.Closure(target) {
				if t := e.P.Target(l); t != nil {
					if t.Gen != "" {
						dirs = append(dirs, filepath.Join(s.Root, t.Pkg, filepath.Dir(t.Gen)))
					}
					for _, src := range t.Sources {
						dirs = append(dirs, filepath.Join(s.Root, t.Pkg, src))
					}
				}
			}
			sort.Strings(dirs)
			var cand []string
			for _, d := range dirs {
				if st, err := os.Stat(d); err == nil && st.IsDir() && d != s.Root {
					cand = append(cand, d)
				}
			}
			if len(cand) > 0 {
				d := cand[r.IntN(len(cand))]
				held := d + ".verif-held"
				if os.Rename(d, held) == nil {
					os.WriteFile(d, []byte("in the way\n"), 0o644)
					e.S.SetFailing(nil)
					from := e.S.LogLen()
					recs0 := pj.Records(s.Root)
					fd := pj.Build(pj.BuildReq{Root: s.Root, Target: target, Dry: true, Always: always, Args: e.P.Args, HashAround: true})
					os.Remove(d)
					os.Rename(held, d)
					c.Count("dry_runs_under_a_fault", 1)
					if fd.RunErr != "" {
						c.Count("dry_runs_under_a_fault_that_failed", 1)
					}
					rel, _ := filepath.Rel(s.Root, d)
					if ents := e.S.ReadLog(from); len(ents) > 0 {
						viol("dry-run-executed-a-body", map[string]any{"target": target, "log": ents, "fault": rel + " is a regular file"})
						return
					}
					if fd.LoadErr == "" && len(fd.Changed) > 0 {
						viol("dry-run-changed-files", map[string]any{"target": target, "changed": fd.Changed, "fault": rel + " is a regular file", "error": fd.RunErr})
						return
					}
					for rr, after := range pj.Records(s.Root) {
						if before, ok := recs0[rr]; ok && fd.LoadErr == "" && (before.Rerun != after.Rerun || before.Stamp != after.Stamp || fmt.Sprint(before.Dependencies) != fmt.Sprint(after.Dependencies)) {
							viol("dry-run-changed-persisted-build-state", map[string]any{"target": target, "record": rr, "before": string(before.Raw), "after": string(after.Raw), "fault": rel + " is a regular file", "error": fd.RunErr})
							return
						}
					}
				}
			}
		}
		// dry run, hashing the tree around Run
		e.S.SetFailing(failing)
		from := e.S.LogLen()
		recsBefore := pj.Records(s.Root)
		dry := pj.Build(pj.BuildReq{Root: s.Root, Target: target, Dry: true, Always: always, Args: e.P.Args, HashAround: true})
		if dry.LoadErr != "" {
			viol("generated-project-does-not-load", map[string]any{"error": dry.LoadErr})
			return
		}
		if dry.RunErr != "" {
			// a dry run only fails for missing/cyclic dependencies, which the generator does not produce
			viol("dry-run-fails", map[string]any{"error": dry.RunErr, "target": target})
			return
		}
		if ents := e.S.ReadLog(from); len(ents) > 0 {
			viol("dry-run-executed-a-body", map[string]any{"target": target, "log": ents})
			return
		}
		if len(dry.Changed) > 0 {
			viol("dry-run-changed-files", map[string]any{"target": target, "changed": dry.Changed})
			return
		}
		// the load that precedes the dry Run may refresh records, but what they say must not change
		for rel, after := range pj.Records(s.Root) {
			if before, ok := recsBefore[rel]; ok && (before.Rerun != after.Rerun || before.Stamp != after.Stamp || fmt.Sprint(before.Dependencies) != fmt.Sprint(after.Dependencies)) {
				viol("dry-run-changed-persisted-build-state", map[string]any{"target": target, "record": rel, "before": string(before.Raw), "after": string(after.Raw)})
				return
			}
		}
		dryEval := evaluatingSet(dry.Events)
		// the real build from the same state
		// (a third of the time the real build follows one more dry run on the same loaded Project - a REPL session doing
		// run(dry_run=True) and then run(): what that dry run predicted must be what the real run then attempts)
		sameProject := r.IntN(3) == 0
		st, res, _ := e.Build(target, pj.BuildOpt{Failing: failing, Always: always, DryFirst: sameProject})
		realEval := evaluatingSet(res.Events)
		if sameProject {
			c.Count("real_builds_after_a_dry_run_on_the_same_project", 1)
			if d2 := evaluatingSet(res.DryEvents); fmt.Sprint(d2) != fmt.Sprint(dryEval) {
				viol("dry-run-prediction-differs-from-real-build", map[string]any{"target": target, "dry_on_a_fresh_load": dryEval, "dry_on_the_project_then_built": d2})
				return
			}
		}
		key := ""
		if len(dryEval) > 0 {
			key = fmt.Sprintf("%s/%d", id, step)
		}
		c.Eval(key)
		c.Count("dry_runs", 1)
		c.Count("targets_predicted", int64(len(dryEval)))
		if res.RunErr == "" {
			if fmt.Sprint(dryEval) != fmt.Sprint(realEval) {
				viol("dry-run-prediction-differs-from-real-build", map[string]any{"target": target, "dry": dryEval, "real": realEval})
				return
			}
		} else {
			c.Count("real_build_failed_after_dry_run", 1)
			// real must be a subset; the missing ones must be downstream of a failed target
			dm := map[string]bool{}
			for _, l := range dryEval {
				dm[l] = true
			}
			for _, l := range realEval {
				if !dm[l] {
					viol("real-build-evaluates-a-target-the-dry-run-did-not-report", map[string]any{"target": target, "label": l, "dry": dryEval, "real": realEval})
					return
				}
			}
			failed := failedSet(res.Events)
			rm := map[string]bool{}
			for _, l := range realEval {
				rm[l] = true
			}
			for _, l := range dryEval {
				if rm[l] || strings.HasPrefix(l, "source:") {
					continue
				}
				down := false
				for _, dl := range e.Closure(l) {
					if dl != l && (failed[dl] || !rm[dl] && dm[dl]) {
						down = true
					}
				}
				if !down && !failed[l] {
					viol("dry-run-reported-a-target-the-real-build-skipped", map[string]any{"target": target, "label": l, "dry": dryEval, "real": realEval, "failed": sortedKeys(failed)})
					return
				}
			}
		}
		// twin: the same real build without the dry run before it
		ts := pj.NewSession(twinDir)
		ts.SetFailing(failing)
		tfrom := ts.LogLen()
		tres := pj.Build(pj.BuildReq{Root: ts.Root, Target: target, Always: always, Args: e.P.Args})
		var texec []string
		for _, le := range ts.ReadLog(tfrom) {
			if le.Kind == "S" {
				texec = append(texec, le.Label)
			}
		}
		a, b := append([]string{}, st.Executed...), texec
		sort.Strings(a)
		sort.Strings(b)
		if fmt.Sprint(a) != fmt.Sprint(b) || (tres.RunErr == "") != (res.RunErr == "") {
			viol("build-after-dry-run-differs-from-twin-without-it", map[string]any{"target": target, "with_dry_run": a, "without": b, "err_with": res.RunErr, "err_without": tres.RunErr})
			return
		}
		for _, rel := range e.Outputs(target) {
			x, _ := os.ReadFile(filepath.Join(s.Root, rel))
			y, _ := os.ReadFile(filepath.Join(ts.Root, rel))
			if string(x) != string(y) {
				viol("outputs-after-dry-run-differ-from-twin", map[string]any{"target": target, "file": rel})
				return
			}
		}
		c.SampleKey("dry", map[string]any{"case": id, "step": step, "target": target, "dry_run_reports": dryEval, "real_build_error": res.RunErr})
	}
}

// expectedRecords lists the record paths (relative to .dawn/build) of every label that
// exists in the generated project.
func expectedRecords(e *pj.Engine) map[string]bool {
	out := map[string]bool{}
	work := filepath.Join(e.S.Root, ".dawn", "build")
	add := func(label string) {
		if p := pj.RecordPath(e.S.Root, label); p != "" {
			rel, _ := filepath.Rel(work, p)
			out[rel] = true
		}
	}
	for _, t := range e.P.AllTargets() {
		add(t.Label())
		srcs := append([]string{}, t.Sources...)
		for _, gl := range t.GenSrc {
			if gt := e.P.Target(gl); gt != nil && gt.Gen != "" {
				rel, _ := filepath.Rel("/"+t.Pkg, "/"+filepath.Join(gt.Pkg, gt.Gen))
				srcs = append(srcs, rel)
			}
		}
		for _, sp := range srcs {
			full := filepath.Clean(filepath.Join(t.Pkg, sp))
			dir, base := filepath.Dir(full), filepath.Base(full)
			if dir == "." {
				dir = ""
			}
			add("source://" + dir + ":" + base)
		}
	}
	return out
}

func c14Case(c *core.Ctx, id string) {
	g := &pj.Gen{R: c.Rand(id)}
	base := filepath.Join(c.Scratch, "c14-"+strings.ReplaceAll(id, "/", "-"))
	defer os.RemoveAll(base)
	if hashStr(id)%2 == 1 {
		// the project is reached through a symbolic link (a linked checkout or working directory)
		os.MkdirAll(filepath.Join(base, "real-a"), 0o755)
		os.Symlink(filepath.Join(base, "real-a"), filepath.Join(base, "a"))
		c.Count("projects_reached_through_a_symlink", 1)
	}
	s := pj.NewSession(filepath.Join(base, "a"))
	p := g.Project()
	if hashStr(id)%4 != 3 {
		// a source file that has the name of the target listing it: //pkg:t0 and source://pkg:t0 are two labels, two records
		for k, t := range p.AllTargets() {
			if k >= 2 || t.Name == "all" {
				continue
			}
			p.Srcs[filepath.Join(t.Pkg, t.Name)] = "source named like its target " + t.Label() + "\n"
			t.Sources = append(t.Sources, t.Name)
			sort.Strings(t.Sources)
			c.Count("sources_named_like_their_target", 1)
		}
	}
	e := pj.NewEngine(s, p, g)
	r := g.R
	nsteps := c.N(10, 20)
	twin := pj.NewSession(filepath.Join(base, "b")) // same tree, never collected
	// a third of the runs keep one long-lived Project per twin and Reload() it before each build (`dawn watch`), while the
	// collections come from fresh loads (`dawn gc` in another terminal)
	var tlive *pj.Live
	if hashStr(id)%3 == 0 {
		e.Live, tlive = &pj.Live{}, &pj.Live{}
		c.Count("runs_on_long_lived_projects", 1)
	}
	mirror := func() {
		// bring the twin's sources and build files in line with the edited tree (not its build state)
		e.P.WriteAll(twin.Root)
		// deletions inside source directories / outputs are mirrored by comparing the trees
		ha := pj.TreeHash(s.Root, func(rel string) bool { return rel == ".dawn" })
		hb := pj.TreeHash(twin.Root, func(rel string) bool { return rel == ".dawn" })
		for rel := range hb {
			// both twins run the same builds, so a file missing from A only was deleted by an edit
			if _, ok := ha[rel]; !ok && !strings.HasSuffix(rel, "/") {
				os.Remove(filepath.Join(twin.Root, rel))
			}
		}
	}
	viol := func(sym string, w map[string]any) {
		w["history"] = e.Script()
		c.Violation(id, "", sym, w)
	}
	gcs := 0
	for step := 0; step < nsteps; step++ {
		for k := r.IntN(3); k > 0 && step > 0; k-- {
			kind := ""
			if r.IntN(3) == 0 {
				kind = []string{"tgt-remove", "tgt-add", "dir-del", "dep-remove", "src-delete", "src-restore"}[r.IntN(6)]
			}
			e.Edit(kind)
		}
		mirror()
		target := pickTarget(e)
		var failing []string
		if r.IntN(6) == 0 {
			ts := e.P.AllTargets()
			failing = []string{ts[r.IntN(len(ts))].Label()}
		}
		// build both twins
		st, res, _ := e.Build(target, pj.BuildOpt{Failing: failing})
		if res.LoadErr != "" {
			viol("generated-project-does-not-load", map[string]any{"error": res.LoadErr})
			return
		}
		twin.SetFailing(failing)
		tfrom := twin.LogLen()
		treq := pj.BuildReq{Root: twin.Root, Target: target, Args: e.P.Args}
		var tres pj.BuildRes
		if tlive != nil {
			tres = tlive.Build(treq)
		} else {
			tres = pj.Build(treq)
		}
		var texec []string
		for _, le := range twin.ReadLog(tfrom) {
			if le.Kind == "S" {
				texec = append(texec, le.Label)
			}
		}
		a, b := append([]string{}, st.Executed...), texec
		sort.Strings(a)
		sort.Strings(b)
		key := ""
		if gcs > 0 && len(a) > 0 {
			key = fmt.Sprintf("%s/%d", id, step)
		}
		c.Eval(key)
		if fmt.Sprint(a) != fmt.Sprint(b) || (res.RunErr == "") != (tres.RunErr == "") {
			viol("build-after-gc-differs-from-twin-without-gc", map[string]any{"target": target, "with_gc": a, "without_gc": b, "err_with": res.RunErr, "err_without": tres.RunErr, "collections_so_far": gcs})
			return
		}
		for _, rel := range e.Outputs(target) {
			x, _ := os.ReadFile(filepath.Join(s.Root, rel))
			y, _ := os.ReadFile(filepath.Join(twin.Root, rel))
			if string(x) != string(y) && res.RunErr == "" {
				viol("outputs-after-gc-differ-from-twin", map[string]any{"target": target, "file": rel})
				return
			}
		}
		if r.IntN(2) != 0 {
			continue
		}
		// ---- a collection on twin A only
		preferIndex := r.IntN(2) == 0
		// plant stray temporaries and a record of a label that never existed
		work := filepath.Join(s.Root, ".dawn", "build")
		os.MkdirAll(filepath.Join(work, "temp"), 0o755)
		os.WriteFile(filepath.Join(work, "temp", "stray123"), []byte("partial"), 0o644)
		os.MkdirAll(filepath.Join(work, "targets"), 0o755)
		os.WriteFile(filepath.Join(work, "targets", "ghost%2Fnever"), []byte("{}\n"), 0o644)
		// ... and records of labels that never existed whose file names are neighbours of live records' names: a proper prefix,
		// an extension, and a file in a directory whose name is a proper prefix of a live directory's name
		{
			live := expectedRecords(e)
			var rels []string
			for rel := range live {
				rels = append(rels, rel)
			}
			sort.Strings(rels)
			planted := 0
			for k := 0; k < len(rels) && planted < 6; k++ {
				rel := rels[(k*7+step)%len(rels)]
				full := filepath.Join(work, rel)
				if _, err := os.Stat(full); err != nil {
					continue
				}
				var cands []string
				if b := filepath.Base(rel); len(b) > 1 {
					cands = append(cands, filepath.Join(filepath.Dir(rel), b[:len(b)-1]))
				}
				cands = append(cands, rel+"x", rel+"0")
				if d := filepath.Dir(rel); len(filepath.Base(d)) > 1 && strings.Count(d, "/") >= 1 {
					cands = append(cands, filepath.Join(d[:len(d)-1], "ghost"))
				}
				for _, cand := range cands {
					if live[cand] {
						continue
					}
					cf := filepath.Join(work, cand)
					if _, err := os.Lstat(cf); err == nil {
						continue
					}
					isParent := false
					for l := range live {
						if strings.HasPrefix(l, cand+"/") {
							isParent = true
						}
					}
					if isParent {
						continue
					}
					os.MkdirAll(filepath.Dir(cf), 0o755)
					if os.WriteFile(cf, []byte("{}\n"), 0o644) == nil {
						planted++
						c.Count("neighbour_ghost_records_planted", 1)
					}
				}
			}
		}
		// a full load first, so that the records on disk are what a load leaves behind
		if !preferIndex {
			pj.Build(pj.BuildReq{Root: s.Root, Args: e.P.Args})
		}
		beforeRecs := pj.Records(s.Root)
		if preferIndex && r.IntN(5) == 0 {
			// the index as a process that died between creating and writing it leaves it: empty. An index-preferring load
			// then has to fall back to a full load; a collection must not take "no index entries" for "no targets"
			if os.WriteFile(filepath.Join(work, "index.json"), nil, 0o644) == nil {
				c.Count("collections_on_an_empty_index_file", 1)
			}
		}
		outside := pj.TreeHash(s.Root, func(rel string) bool { return rel == filepath.Join(".dawn", "build") })
		gres := pj.Build(pj.BuildReq{Root: s.Root, GC: true, PreferIndex: preferIndex, Args: e.P.Args})
		if gres.LoadErr != "" || gres.GCErr != "" {
			viol("gc-fails", map[string]any{"error": gres.LoadErr + gres.GCErr, "prefer_index": preferIndex})
			return
		}
		gcs++
		c.Count("collections", 1)
		if preferIndex {
			c.Count("collections_after_index_load", 1)
		}
		afterRecs := pj.Records(s.Root)
		expect := expectedRecords(e)
		removed := 0
		for rel, rec := range beforeRecs {
			ar, ok := afterRecs[rel]
			switch {
			case expect[rel] && !ok:
				viol("gc-removed-the-record-of-an-existing-label", map[string]any{"record": rel, "prefer_index": preferIndex})
				return
			case expect[rel] && string(ar.Raw) != string(rec.Raw):
				viol("gc-changed-a-record", map[string]any{"record": rel, "before": string(rec.Raw), "after": string(ar.Raw)})
				return
			case !expect[rel] && !ok:
				removed++
			case !expect[rel] && ok && !preferIndex:
				viol("gc-kept-the-record-of-a-removed-label", map[string]any{"record": rel})
				return
			}
		}
		if _, err := os.Stat(filepath.Join(work, "temp", "stray123")); err == nil {
			viol("gc-kept-a-stray-temporary", map[string]any{"file": "temp/stray123", "prefer_index": preferIndex})
			return
		}
		c.Count("records_removed_by_gc", int64(removed))
		c.Count("records_kept_by_gc", int64(len(afterRecs)))
		if d := pj.DiffMaps(outside, pj.TreeHash(s.Root, func(rel string) bool { return rel == filepath.Join(".dawn", "build") })); len(d) > 0 {
			viol("gc-changed-files-outside-the-build-state", map[string]any{"changed": d})
			return
		}
		if removed > 0 {
			c.Distinct(fmt.Sprintf("%s/gc%d", id, step))
		}
		c.SampleKey("gc", map[string]any{"case": id, "step": step, "prefer_index": preferIndex, "records_before": len(beforeRecs), "records_after": len(afterRecs), "removed": removed})
	}
}
