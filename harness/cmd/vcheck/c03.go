package main

import (
	"fmt"
	"os"
	"path/filepath"
	"runtime"
	"sort"
	"strings"
	"time"

	"github.com/pgavlin/dawn/verifharness/core"
	"github.com/pgavlin/dawn/verifharness/pj"
)

func init() {
	register("C03", "fault_enumeration", runC03)
	registerCase("c03", c03Case)
}

var c03Reasons = []string{"never-run", "env-change", "source-change", "dependency-reexecuted", "output-missing", "rerun-after-failure", "always"}

func runC03(c *core.Ctx) {
	c.SetRule("scenarios = generated project x pre-history x the reason its targets run (never-run / env change / source change / dependency re-executed / output missing / " +
		"rerun after failure / always). Per scenario a counting run lists every hit of every named crash point (state-file mkdir/create/write/close/rename, index create/write, " +
		"evaluation enter/deps-done/before-body/after-body/after-save, body start/middle/end) per target; one child per distinct (point,label,n) is SIGKILLed there (limits 1 and 4), " +
		"then a fresh process loads and rebuilds, judged by the reference model and a from-scratch build; plus every failure pattern of up to 2 bodies. " +
		"non-trivial = a crash or failure that left at least one target unfinished; distinct = distinct (scenario, point, label, n, limit)")
	c.Assume("kill -9 of the build process; the file system itself does not lose completed writes (no power-loss model)")
	n := c.N(14, 150)
	var cases []string
	for i := 0; i < n; i++ {
		if id := fmt.Sprintf("scen/%d", i); c.Want(id) {
			cases = append(cases, id)
		}
	}
	workers := runtime.NumCPU() - 2
	if workers > 14 {
		workers = 14
	}
	c.RunSharded(cases, core.ShardOpts{Mode: "c03", Workers: workers, Timeout: 20 * time.Minute, PerCaseTime: 10 * time.Minute})
	c.Extra("exhaustive_per_scenario", !c.Quick())
	c.Extra("reasons", c03Reasons)
}

func c03Case(c *core.Ctx, id string) {
	var i int
	fmt.Sscanf(id, "scen/%d", &i)
	reason := c03Reasons[i%len(c03Reasons)]
	g := &pj.Gen{R: c.Rand(id)}
	base := filepath.Join(c.Scratch, fmt.Sprintf("c03-%d", i))
	if os.Getenv("VERIF_KEEP") == "" {
		defer os.RemoveAll(base)
	}
	work := filepath.Join(base, "work")
	snap := filepath.Join(base, "snap")
	snapPre, havePre := filepath.Join(base, "snap-pre"), false
	s := pj.NewSession(work)
	p := g.Project()
	e := pj.NewEngine(s, p, g)
	target := "//:all"
	r := g.R
	viol := func(sym string, w map[string]any) {
		w["reason_targets_run"] = reason
		w["history"] = e.Script()
		c.Violation(id, "", sym, w)
	}
	// pre-history
	always := false
	if reason != "never-run" {
		if _, res, _ := e.Build(target, pj.BuildOpt{}); res.LoadErr != "" || res.RunErr != "" {
			viol("pre-history-build-fails", map[string]any{"error": res.LoadErr + res.RunErr})
			return
		}
		for k := r.IntN(3); k > 0; k-- {
			e.Edit("")
			e.Build(pickTarget(e), pj.BuildOpt{})
		}
		e.Build(target, pj.BuildOpt{})
		// the fully built state before the edit that makes targets run (for the long-lived-project variant below)
		switch reason {
		case "env-change", "source-change", "dependency-reexecuted", "output-missing":
			if pj.CopyDir(work, snapPre) == nil {
				havePre = true
			}
		}
		ok := false
		for try := 0; try < 40 && !ok; try++ {
			switch reason {
			case "env-change":
				ok = e.Edit([]string{"atom-lit", "tgt-extra", "atom-default"}[r.IntN(3)])
			case "source-change":
				ok = e.Edit([]string{"src-content", "dir-rename", "dir-add"}[r.IntN(3)])
			case "dependency-reexecuted":
				ok = e.Edit("src-content")
			case "output-missing":
				ok = e.Edit("output-delete")
			case "rerun-after-failure":
				ts := e.P.AllTargets()
				f := ts[r.IntN(len(ts))].Label()
				e.Edit("src-content")
				e.Build(target, pj.BuildOpt{Always: true, Failing: []string{f}})
				ok = true
			case "always":
				always, ok = true, true
			}
		}
		stale := 0
		for _, l := range e.Closure(target) {
			if e.Stale(l) != "" {
				stale++
			}
		}
		if stale == 0 && !always {
			c.Count("scenarios_with_nothing_to_run", 1)
		}
	}

	// failure patterns (in-process): every single body and a few pairs fail, then are fixed.
	labels := e.Closure(target)
	var pats [][]string
	for _, l := range labels {
		pats = append(pats, []string{l})
	}
	for k := 0; k < 4 && len(labels) > 1; k++ {
		a, b := labels[r.IntN(len(labels))], labels[r.IntN(len(labels))]
		if a != b {
			pats = append(pats, []string{a, b})
		}
	}
	if err := pj.CopyDir(work, snap); err != nil {
		c.Inconclusive("snapshot failed: " + err.Error())
		return
	}
	model0 := e.M.Clone()
	steps0 := len(e.Steps)
	always0 := map[string]bool{}
	for _, t := range e.P.AllTargets() {
		always0[t.Label()] = t.Always
	}
	resetDecls := func() {
		for _, t := range e.P.AllTargets() {
			t.Always = always0[t.Label()]
		}
	}
	restore := func() {
		os.RemoveAll(work)
		pj.CopyDir(snap, work)
		e.M = model0.Clone()
		e.Steps = e.Steps[:steps0]
		resetDecls()
	}
	njudge := 0
	recoverAndJudge := func(what string, cpus int) bool {
		e.ChildBuild = childBuilder(c, cpus)
		njudge++
		if njudge%3 == 0 {
			// between the failure or crash and the next build, always=True is taken off the declarations that had it
			// (it is no part of a function's environment): what did not finish must be re-executed all the same
			if e.DropAlways() > 0 {
				what += ", then always=True removed from the declarations"
				c.Count("recoveries_after_always_was_removed", 1)
			}
		}
		// an index-preferring load (what `dawn list` / `dawn gc` do) must cope with whatever the
		// interrupted run left in index.json
		if ires, ialive := e.ChildBuild(pj.BuildReq{Root: e.S.Root, PreferIndex: true, Args: e.P.Args}, nil); !ialive || ires.LoadErr != "" {
			viol("state-not-loadable", map[string]any{"after": what, "load": "index-preferring", "error": ires.LoadErr + ires.RunErr})
			return false
		}
		st, res, alive := e.Build(target, pj.BuildOpt{Child: true, Always: false})
		switch {
		case !alive && watchdogOnly(res):
			c.Inconclusive(fmt.Sprintf("%s: the recovery build after %s was ended by the wall-clock watchdog (no fatal error, no deadlock in its dump)", id, what))
			return false
		case !alive:
			viol("recovery-build-crashes", map[string]any{"after": what, "error": res.RunErr})
			return false
		case res.LoadErr != "":
			viol("state-not-loadable", map[string]any{"after": what, "error": res.LoadErr})
			return false
		case res.RunErr != "":
			viol("recovery-build-fails", map[string]any{"after": what, "error": res.RunErr})
			return false
		}
		for _, f := range st.Findings {
			if f.Kind == "stale" {
				viol("unfinished-target-remembered-as-up-to-date", map[string]any{"after": what, "finding": f})
				return false
			}
		}
		for _, f := range e.CleanBuildCompare(target, filepath.Join(base, "clean")) {
			viol("outputs-differ-from-uninterrupted-build", map[string]any{"after": what, "finding": f})
			return false
		}
		// one further build must be a no-op and still current
		st2, res2, _ := e.Build(target, pj.BuildOpt{})
		if res2.RunErr != "" || res2.LoadErr != "" {
			viol("second-recovery-build-fails", map[string]any{"after": what, "error": res2.LoadErr + res2.RunErr})
			return false
		}
		for _, f := range st2.Findings {
			if f.Kind == "stale" {
				viol("unfinished-target-remembered-as-up-to-date", map[string]any{"after": what + " (second build)", "finding": f})
				return false
			}
		}
		return true
	}
	for pi, pat := range pats {
		restore()
		_, res, _ := e.Build(target, pj.BuildOpt{Always: always, Failing: pat})
		key := ""
		if res.RunErr != "" {
			key = fmt.Sprintf("%s/fail/%d", id, pi)
			c.Count("failure_patterns_that_failed_the_build", 1)
		}
		c.Eval(key)
		c.Count("failure_patterns", 1)
		what := "bodies failing: " + strings.Join(pat, ",")
		if pi%2 == 1 {
			// between the failed build and the next one only docstrings are edited (not part of any
			// function environment): the failed targets must still be re-executed
			for _, l := range pat {
				e.EditDoc(l)
			}
			what += ", then docstring-only edits of the failed targets"
			c.Count("failure_patterns_followed_by_docstring_edits", 1)
		}
		if !recoverAndJudge(what, 0) {
			return
		}
	}

	// crash points: counting run, then one killed run per hit.
	type variant struct {
		cpus    int
		failing []string
		live    bool
	}
	variants := []variant{{1, nil, false}, {4, nil, false}}
	if len(labels) > 0 {
		// the same enumeration while one body fails: the failure path writes its own record
		variants = append(variants, variant{1, []string{labels[r.IntN(len(labels))]}, false})
	}
	if havePre {
		// the interrupted build is the second build of one long-lived project (`dawn watch`): the process first built
		// everything, then the edit arrived, the project was Reload()ed, and the rebuild is killed
		variants = append(variants, variant{1, nil, true})
	}
	for vi, va := range variants {
		cpus := va.cpus
		warm := ""
		restore := restore
		if va.live {
			warm = filepath.Join(snap, "tree")
			restore = func() {
				os.RemoveAll(work)
				pj.CopyDir(snapPre, work)
				e.M = model0.Clone()
				e.Steps = e.Steps[:steps0]
				resetDecls()
			}
			c.Count("scenarios_with_a_long_lived_project_variant", 1)
		}
		restore()
		countFile := filepath.Join(base, fmt.Sprintf("count-%d", vi))
		os.Remove(countFile)
		e.ChildBuild = childBuilder(c, cpus)
		_, res, alive := e.Build(target, pj.BuildOpt{Child: true, Always: always, Failing: va.failing, WarmOverlay: warm, Env: []string{"VERIF_COUNT=" + countFile}})
		if !alive && watchdogOnly(res) {
			c.Inconclusive(fmt.Sprintf("%s: the counting run was ended by the wall-clock watchdog (no fatal error, no deadlock in its dump)", id))
			return
		}
		if !alive || res.LoadErr != "" || (res.RunErr != "" && va.failing == nil) {
			viol("counting-run-fails", map[string]any{"error": res.LoadErr + res.RunErr})
			return
		}
		raw, _ := os.ReadFile(countFile)
		hits := map[string]bool{}
		for _, l := range strings.Split(strings.TrimSpace(string(raw)), "\n") {
			if l != "" {
				hits[l] = true
			}
		}
		var specs []string
		for h := range hits {
			specs = append(specs, h)
		}
		sort.Strings(specs)
		if (cpus == 4 || va.failing != nil || va.live) && len(specs) > 20 && c.Quick() {
			// limit 4 repeats the enumeration under real overlap; quick samples it
			r.Shuffle(len(specs), func(a, b int) { specs[a], specs[b] = specs[b], specs[a] })
			specs = specs[:20]
		}
		if c.Quick() && len(specs) > 120 {
			// the quick tier bounds the largest scenarios; the thorough tier enumerates every point
			r.Shuffle(len(specs), func(a, b int) { specs[a], specs[b] = specs[b], specs[a] })
			specs = specs[:120]
			c.Count("scenarios_sampled_to_120_points", 1)
		}
		c.Max("max_crash_points_in_one_scenario", int64(len(specs)))
		for _, spec := range specs {
			restore()
			e.ChildBuild = childBuilder(c, cpus)
			st, _, alive := e.Build(target, pj.BuildOpt{Child: true, Always: always, NoCheck: true, Failing: va.failing, WarmOverlay: warm, Env: []string{"VERIF_CRASH=" + spec}})
			point := spec[:strings.Index(spec, "|")]
			c.Count("killed_at:"+point, 1)
			if alive {
				// the point was not reached this time (schedule-dependent count); nothing was killed
				c.Count("crash_point_not_reached", 1)
				c.Eval("")
				continue
			}
			unfinished := 0
			for _, l := range e.Closure(target) {
				if e.Stale(l) != "" {
					unfinished++
				}
			}
			key := ""
			if unfinished > 0 {
				key = fmt.Sprintf("%s/%s/limit%d", id, spec, cpus)
			}
			c.Eval(key)
			c.Count("kills", 1)
			_ = st
			if va.live {
				c.Count("kills_of_a_long_lived_project", 1)
			}
			if !recoverAndJudge(fmt.Sprintf("SIGKILL at %s (limit %d, failing bodies %v, long-lived project %v)", spec, cpus, va.failing, va.live), cpus) {
				return
			}
		}
	}
	c.SampleKey("scenario", map[string]any{"case": id, "reason": reason, "targets": len(p.AllTargets()), "pre_history": e.Script()[:steps0]})
}
