package main

import (
	"fmt"
	"os"
	"path/filepath"
	"runtime"
	"strings"
	"sync"
	"time"

	"github.com/pgavlin/dawn/verifharness/core"
	"github.com/pgavlin/dawn/verifharness/pj"
)

func init() {
	register("C01", "exploration", func(c *core.Ctx) { runHistories(c, "C01") })
	register("C02", "exploration", func(c *core.Ctx) { runHistories(c, "C02") })
}

// pickTarget chooses the label to build: mostly the aggregate, otherwise a random sub-target.
func pickTarget(e *pj.Engine) string {
	ts := e.P.AllTargets()
	if e.G.R.IntN(2) == 0 {
		return "//:all"
	}
	return ts[e.G.R.IntN(len(ts))].Label()
}

// runHistories drives generated projects through generated histories of edits and builds and
// judges C01 (no stale target after a successful build) or C02 (no spurious execution).
func runHistories(c *core.Ctx, which string) {
	if which == "C01" {
		c.SetRule("generated multi-package projects (helper modules, closures, defaults, globals, flags, generated-file sources, source directories) x histories of " +
			"edits (content, constants incl. 2-byte-collision pairs, code, closures, defaults, dependency edges, target add/remove, directory add/delete/rename, output deletion, flags) " +
			"and builds (full, sub-target, failing, always, dry, fresh-process); oracle: reference model fed by the execution log written by bodies + byte comparison with a " +
			"from-scratch build of a copy; non-trivial = a successful build after at least one relevant edit; distinct = distinct (project, history prefix) pairs")
	} else {
		c.SetRule("same generated projects and histories with irrelevant edits over-sampled (touch, same-content rewrite in place and via rename, comments/whitespace/docstrings, " +
			"edits outside the closure, other packages' build files); every build is preceded by a fresh load, a third in a fresh process, module load order shuffled by v.pause; " +
			"oracle: a body must not start when the model says the target and its inputs are unchanged since its last successful execution; stamps of all records compared " +
			"across loads; non-trivial = a build after which at least one target was forbidden to run; distinct = distinct (project, history prefix) pairs")
	}
	c.Assume("edits to unrelated code in the same build file or helper module create no expectation in either direction (uncertain)")
	c.Assume("dependency-edge removal creates no rebuild expectation unless it changes the body's input list")

	nproj := c.N(150, 4000)
	var cases []string
	for i := 0; i < nproj; i++ {
		if id := fmt.Sprintf("hist/%d", i); c.Want(id) {
			cases = append(cases, id)
		}
	}
	if which == "C01" {
		for k := 0; k < 8; k++ {
			if id := fmt.Sprintf("named/sibling-closures/%d", k); c.Want(id) {
				cases = append(cases, id)
			}
		}
		for _, id := range []string{"named/long-lived/subtarget-then-all", "named/long-lived/revert", "named/long-lived/revert-constant"} {
			if c.Want(id) {
				cases = append(cases, id)
			}
		}
	}
	if which == "C02" {
		for _, nm := range []string{"named/shared-source-edited-back-after-sibling-build", "named/shared-source-reverted-after-sibling-build"} {
			if c.Want(nm) {
				cases = append([]string{nm}, cases...)
			}
		}
	}
	workers := runtime.NumCPU() - 2
	if workers > 14 {
		workers = 14
	}
	c.RunSharded(cases, core.ShardOpts{Mode: "hist-" + which, Workers: workers, Timeout: 30 * time.Minute, PerCaseTime: 15 * time.Second})
}

// c02Named: deterministic scenarios of C02 (known findings live here).
func c02Named(c *core.Ctx, id string) {
	dir := filepath.Join(c.Scratch, fmt.Sprintf("c02n-%d", os.Getpid()))
	os.RemoveAll(dir)
	defer os.RemoveAll(dir)
	s := pj.NewSession(dir)
	os.WriteFile(filepath.Join(s.Root, "dawn.toml"), []byte("name = \"n\"\n"), 0o644)
	os.WriteFile(filepath.Join(s.Root, "BUILD.dawn"), []byte(`@target(sources=["shared.txt"], generates=["out/a.txt"])
def a(self):
    v.body("//:a", [1], ["shared.txt"], "out/a.txt")
@target(sources=["shared.txt"], generates=["out/b.txt"])
def b(self):
    v.body("//:b", [2], ["shared.txt"], "out/b.txt")
`), 0o644)
	src := filepath.Join(s.Root, "shared.txt")
	os.WriteFile(src, []byte("content X\n"), 0o644)
	build := func(t string) []string {
		from := s.LogLen()
		pj.Build(pj.BuildReq{Root: s.Root, Target: t})
		var ex []string
		for _, le := range s.ReadLog(from) {
			if le.Kind == "S" {
				ex = append(ex, le.Label)
			}
		}
		return ex
	}
	build("//:a")
	build("//:b")
	how := "rm shared.txt"
	if id == "named/shared-source-edited-back-after-sibling-build" {
		os.WriteFile(src, []byte("content Y\n"), 0o644) // the shared source is edited
		how = "edit shared.txt X -> Y"
	} else {
		os.Remove(src) // the shared source disappears
	}
	build("//:a")                                   // only the sibling is built meanwhile
	os.WriteFile(src, []byte("content X\n"), 0o644) // ... and the source comes back as it was
	ex := build("//:b")
	c.Eval(id)
	c.Distinct(id + "/b")
	if len(ex) > 0 {
		c.Violation(id, id, "spurious", map[string]any{"executed": ex, "history": []string{"build //:a", "build //:b", how, "build //:a", "shared.txt back to its old content", "build //:b -> //:b executes although its source has the content of its last execution"}})
	}
}

// c01SiblingClosures: several closures stamped out by one factory (one compiled body, different captured values and default
// values) referenced by one target; each captured or default value is edited in turn, alone, and the next build must
// re-execute the target. Case k edits value k (0-2 captured, 3-5 defaults, 6 a closure captured by another closure, 7 the
// captured value of a lambda made in a loop).
func c01SiblingClosures(c *core.Ctx, id string) {
	var k int
	fmt.Sscanf(id, "named/sibling-closures/%d", &k)
	dir := filepath.Join(c.Scratch, fmt.Sprintf("c01n-%d", os.Getpid()))
	os.RemoveAll(dir)
	defer os.RemoveAll(dir)
	s := pj.NewSession(dir)
	os.WriteFile(filepath.Join(s.Root, "dawn.toml"), []byte("name = \"n\"\n"), 0o644)
	vals := []string{"\"alpha\"", "\"beta\"", "\"gamma\"", "1", "2", "3", "\"inner-most\"", "[10, 20, 30]"}
	text := func() string {
		return fmt.Sprintf(`def emitter(n, k=0):
    def inner(d=k):
        return [n, d]
    return inner
first = emitter(%s, %s)
second = emitter(%s, %s)
third = emitter(%s, %s)
wrapped = emitter(emitter(%s))
adders = [(lambda q: lambda: q)(x) for x in %s]
@target(generates=["out/t.txt"])
def t(self):
    v.body("//:t", [first(), second(), third(), wrapped()[0](), [a() for a in adders]], [], "out/t.txt")
`, vals[0], vals[3], vals[1], vals[4], vals[2], vals[5], vals[6], vals[7])
	}
	build := func() ([]string, string) {
		from := s.LogLen()
		res := pj.Build(pj.BuildReq{Root: s.Root, Target: "//:t"})
		var ex []string
		for _, le := range s.ReadLog(from) {
			if le.Kind == "S" {
				ex = append(ex, le.Label)
			}
		}
		return ex, res.LoadErr + res.RunErr
	}
	os.WriteFile(filepath.Join(s.Root, "BUILD.dawn"), []byte(text()), 0o644)
	if ex, err := build(); err != "" || len(ex) != 1 {
		c.Violation(id, "", "clean-build-fails", map[string]any{"error": err, "executed": ex, "build_file": text()})
		return
	}
	if ex, _ := build(); len(ex) != 0 {
		c.Inconclusive("sibling-closures: the unchanged tree re-executes (C02's business); no expectation for C01")
		return
	}
	old := vals[k]
	vals[k] = map[int]string{0: "\"ALPHA\"", 1: "\"BETA\"", 2: "\"GAMMA\"", 3: "70001", 4: "70002", 5: "70003", 6: "\"INNER-MOST\"", 7: "[10, 21, 30]"}[k]
	os.WriteFile(filepath.Join(s.Root, "BUILD.dawn"), []byte(text()), 0o644)
	ex, err := build()
	c.Eval(id)
	c.Distinct(id)
	c.Count("sibling_closure_value_edits", 1)
	if err != "" || len(ex) == 0 {
		c.Violation(id, "", "stale", map[string]any{"edited_value": old + " -> " + vals[k], "executed": ex, "error": err, "build_file": text(),
			"why": "a value captured (or defaulted) by one of several closures of one factory changed, the build reported success and //:t did not re-execute"})
	}
}

// c01LongLived: deterministic histories on one long-lived Project (Reload() before every build, nil options - the `dawn
// watch` path): a dependency rebuilt alone between two builds of its dependent; an input edited and edited back.
func c01LongLived(c *core.Ctx, id string) {
	dir := filepath.Join(c.Scratch, fmt.Sprintf("c01l-%d", os.Getpid()))
	os.RemoveAll(dir)
	defer os.RemoveAll(dir)
	s := pj.NewSession(dir)
	os.WriteFile(filepath.Join(s.Root, "dawn.toml"), []byte("name = \"n\"\n"), 0o644)
	write := func(k string) {
		os.WriteFile(filepath.Join(s.Root, "BUILD.dawn"), []byte(fmt.Sprintf(`K = %s
@target(sources=["in.txt"], generates=["out/mid.txt"])
def mid(self):
    v.body("//:mid", [K], ["in.txt"], "out/mid.txt")
@target(deps=[":mid"], generates=["out/top.txt"])
def top(self):
    v.body("//:top", [2], ["out/mid.txt"], "out/top.txt")
`, k)), 0o644)
	}
	write("\"one\"")
	in := filepath.Join(s.Root, "in.txt")
	os.WriteFile(in, []byte("A\n"), 0o644)
	lv := &pj.Live{}
	var script []string
	build := func(t string) []string {
		from := s.LogLen()
		res := lv.Build(pj.BuildReq{Root: s.Root, Target: t})
		var ex []string
		for _, le := range s.ReadLog(from) {
			if le.Kind == "S" {
				ex = append(ex, le.Label)
			}
		}
		script = append(script, fmt.Sprintf("build %s -> executed %v %s%s", t, ex, res.LoadErr, res.RunErr))
		return ex
	}
	expect := func(ex []string, want ...string) bool {
		for _, w := range want {
			if !contains2(ex, w) {
				c.Violation(id, "", "stale", map[string]any{"history": script, "why": w + " did not re-execute although an input of it changed since its last execution; the build reported success"})
				return false
			}
		}
		return true
	}
	c.Eval(id)
	c.Distinct(id)
	if ex := build("//:top"); len(ex) != 2 {
		c.Violation(id, "", "clean-build-fails", map[string]any{"history": script})
		return
	}
	switch id {
	case "named/long-lived/subtarget-then-all":
		os.WriteFile(in, []byte("B\n"), 0o644)
		script = append(script, "edit in.txt A -> B")
		if !expect(build("//:mid"), "//:mid") {
			return
		}
		expect(build("//:top"), "//:top")
	case "named/long-lived/revert":
		os.WriteFile(in, []byte("B\n"), 0o644)
		script = append(script, "edit in.txt A -> B")
		if !expect(build("//:top"), "//:mid", "//:top") {
			return
		}
		os.WriteFile(in, []byte("A\n"), 0o644)
		script = append(script, "edit in.txt B -> A")
		expect(build("//:top"), "//:mid", "//:top")
	case "named/long-lived/revert-constant":
		write("\"two\"")
		script = append(script, "edit K one -> two")
		if !expect(build("//:top"), "//:mid", "//:top") {
			return
		}
		write("\"one\"")
		script = append(script, "edit K two -> one")
		expect(build("//:top"), "//:mid", "//:top")
	}
}

func init() {
	for _, which := range []string{"C01", "C02"} {
		which := which
		registerCase("hist-"+which, func(c *core.Ctx, id string) {
			if strings.HasPrefix(id, "named/sibling-closures/") {
				c01SiblingClosures(c, id)
				return
			}
			if strings.HasPrefix(id, "named/long-lived/") {
				c01LongLived(c, id)
				return
			}
			if strings.HasPrefix(id, "named/") {
				c02Named(c, id)
				return
			}
			var i int
			fmt.Sscanf(id, "hist/%d", &i)
			historyCase(c, which, i, c.N(12, 25))
		})
	}
}

var irrelevantKinds = []string{"src-touch", "src-rewrite-same", "src-rewrite-rename", "comment", "docstring", "comment"}

func historyCase(c *core.Ctx, which string, i, nsteps int) {
	id := fmt.Sprintf("hist/%d", i)
	g := &pj.Gen{R: c.Rand(id)}
	dir := filepath.Join(c.Scratch, fmt.Sprintf("%s-h%d", which, i))
	s := pj.NewSession(dir)
	if os.Getenv("VERIF_KEEP") == "" {
		defer os.RemoveAll(dir)
	}
	p := g.Project()
	if which == "C02" && i%2 == 1 {
		// module top-level code yields between load statements: package and module load order is
		// shuffled from load to load, fingerprints must not depend on it
		p.Pause = true
		pr := c.Rand(id + "/pause")
		var pmu sync.Mutex
		pj.PauseHook = func(string) {
			pmu.Lock()
			k := pr.IntN(6)
			pmu.Unlock()
			for j := 0; j < k; j++ {
				runtime.Gosched()
			}
		}
		c.Count("projects_with_shuffled_load_order", 1)
	} else {
		pj.PauseHook = nil
	}
	e := pj.NewEngine(s, p, g)
	if i%4 == 2 {
		// a quarter of the histories keep one Project alive and Reload() it before each in-process build, the way
		// `dawn watch` does; fresh-process builds are still interleaved
		e.Live = &pj.Live{}
		defer func() { c.Count("builds_by_reload_of_a_long_lived_project", int64(e.Live.Reloads)) }()
	}
	e.ChildBuild = childBuilder(c, 0)
	r := g.R
	report := func(st *pj.Step, f pj.Finding) {
		c.Violation(id, "", f.Kind, map[string]any{"finding": f, "step": st.N, "history": e.Script(), "build_file_root": p.RenderFile("pkg:")})
	}
	builds := 0
	for step := 0; step < nsteps; step++ {
		// edits
		nedit := r.IntN(3)
		if step == 0 {
			nedit = 0
		}
		for k := 0; k < nedit; k++ {
			kind := ""
			if which == "C02" && r.IntN(2) == 0 {
				kind = irrelevantKinds[r.IntN(len(irrelevantKinds))]
			}
			e.Edit(kind)
		}
		// now and then a garbage collection between two builds (after a full load, or an index-preferring one as `dawn gc`
		// does): it must not change what the next build does
		if step > 0 && r.IntN(10) == 0 {
			if g := e.GC(r.IntN(2) == 0); g.LoadErr != "" || g.GCErr != "" {
				c.Violation(id, "", "gc-fails", map[string]any{"error": g.LoadErr + g.GCErr, "history": e.Script()})
				return
			}
			c.Count("collections_between_builds", 1)
		}
		// build
		o := pj.BuildOpt{}
		switch x := r.IntN(20); {
		case x == 0:
			o.Always = true
		case x == 1:
			o.Dry = true
		case x == 2:
			o.Dry, o.Always = true, true // `dawn build -n -B`
		case x <= 4:
			ts := e.P.AllTargets()
			o.Failing = []string{ts[r.IntN(len(ts))].Label()}
		case x == 5 || x == 6:
			// an interrupted build: the process is killed inside (or right around) one body. Half
			// of the time the reason the victim runs is transient (its output was just deleted).
			o.Child, o.NoCheck = true, true
			if r.IntN(2) == 0 {
				e.Edit("output-delete")
			}
		}
		if !o.Child {
			o.Child = r.IntN(3) == 0
		}
		target := pickTarget(e)
		if o.NoCheck {
			// the victim is a target that is going to run in this build
			var victims []string
			for _, l := range e.Closure(target) {
				if e.Stale(l) != "" {
					victims = append(victims, l)
				}
			}
			if len(victims) == 0 {
				victims = e.Closure(target)
			}
			o.Env = []string{fmt.Sprintf("VERIF_CRASH=%s|%s|1", []string{"body.start", "body.mid", "body.end", "eval.after-body", "eval.before-body"}[r.IntN(5)], victims[r.IntN(len(victims))])}
		}
		staleBefore, forbidden := 0, 0
		for _, l := range e.Closure(target) {
			if e.Stale(l) != "" {
				staleBefore++
			} else if e.M.Certain(l) {
				forbidden++
			}
		}
		st, res, alive := e.Build(target, o)
		builds++
		if !alive && len(o.Env) > 0 {
			c.Count("interrupted_builds", 1)
			c.Eval("")
			continue
		}
		if !alive && watchdogOnly(res) {
			c.Inconclusive(fmt.Sprintf("%s step %d: the build child was ended by the wall-clock watchdog (no fatal error, no deadlock in its dump)", id, st.N))
			return
		}
		if !alive {
			c.Violation(id, "", "build-process-died", map[string]any{"step": st.N, "history": e.Script(), "error": res.RunErr})
			return
		}
		if res.LoadErr != "" {
			c.Violation(id, "", "generated-project-does-not-load", map[string]any{"step": st.N, "history": e.Script(), "error": res.LoadErr, "build_file_root": p.RenderFile("pkg:")})
			return
		}
		for _, f := range st.Findings {
			if (which == "C01" && f.Kind == "stale") || (which == "C02" && f.Kind == "spurious") {
				report(st, f)
				return
			}
		}
		ok := res.RunErr == "" && !o.Dry
		if which == "C01" && ok && (step%5 == 4 || step == nsteps-1) {
			for _, f := range e.CleanBuildCompare(target, dir+"-clean") {
				report(st, f)
				return
			}
			c.Count("model_validated_against_clean_builds", 1)
		}
		c.Count("builds", 1)
		c.Count("bodies_executed", int64(len(st.Executed)))
		if o.Child {
			c.Count("builds_in_fresh_process", 1)
		}
		if res.RunErr != "" {
			c.Count("failed_builds", 1)
		}
		key := ""
		if (which == "C01" && ok && staleBefore > 0) || (which == "C02" && forbidden > 0 && !o.Always) {
			key = fmt.Sprintf("%s/%d", id, step)
		}
		c.Eval(key)
		if which == "C02" && !o.Always {
			c.Count("targets_forbidden_to_run", int64(forbidden))
		}
		c.Count("targets_stale_before_build", int64(staleBefore))
	}
	c.SampleKey("history", map[string]any{"case": id, "targets": len(p.AllTargets()), "files": p.Order, "history": e.Script()})
}
