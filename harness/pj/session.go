// Package pj is the project-level harness: a session (tree + control directory), the `v`
// builtin module that target bodies call, an event recorder, and drivers that run real
// dawn.Load/Run either in-process or in journaled child processes.
package pj

import (
	"bufio"
	"crypto/sha256"
	"encoding/hex"
	"fmt"
	"io"
	"os"
	"path/filepath"
	"sort"
	"strings"
	"sync"
	"sync/atomic"
	"syscall"

	"github.com/pgavlin/dawn/util"
	"go.starlark.net/starlark"
	"go.starlark.net/starlarkstruct"
)

// A Session is one project directory plus its control directory:
//
//	<dir>/tree      the dawn project
//	<dir>/ctl/exec.log   one line per body start (S), end (E) or failure (F), O_APPEND
//	<dir>/ctl/fail       labels whose bodies fail
type Session struct {
	Dir  string
	Root string
}

func NewSession(dir string) *Session {
	s := &Session{Dir: dir, Root: filepath.Join(dir, "tree")}
	os.MkdirAll(s.Root, 0o755)
	os.MkdirAll(filepath.Join(dir, "ctl"), 0o755)
	return s
}

func sessionOfRoot(root string) *Session {
	return &Session{Dir: filepath.Dir(root), Root: root}
}

func (s *Session) ctl(name string) string { return filepath.Join(s.Dir, "ctl", name) }

func (s *Session) logLine(line string) {
	f, err := os.OpenFile(s.ctl("exec.log"), os.O_WRONLY|os.O_APPEND|os.O_CREATE, 0o644)
	if err != nil {
		panic(err)
	}
	f.Write([]byte(line + "\n"))
	f.Close()
}

// Mark appends a marker line (used by the history engine to delimit builds).
func (s *Session) Mark(text string) { s.logLine("M " + text) }

type LogEntry struct {
	Seq   int
	Kind  string // S, E, F, M
	Label string
}

// ReadLog returns the log entries from line `from` on.
func (s *Session) ReadLog(from int) []LogEntry {
	f, err := os.Open(s.ctl("exec.log"))
	if err != nil {
		return nil
	}
	defer f.Close()
	var out []LogEntry
	sc := bufio.NewScanner(f)
	n := 0
	for sc.Scan() {
		n++
		if n <= from {
			continue
		}
		t := sc.Text()
		if len(t) < 3 {
			continue
		}
		out = append(out, LogEntry{Seq: n, Kind: t[:1], Label: t[2:]})
	}
	return out
}

// LogPath is the execution log file.
func (s *Session) LogPath() string { return s.ctl("exec.log") }

func (s *Session) LogLen() int {
	b, err := os.ReadFile(s.ctl("exec.log"))
	if err != nil {
		return 0
	}
	return strings.Count(string(b), "\n")
}

func (s *Session) SetFailing(labels []string) {
	os.WriteFile(s.ctl("fail"), []byte(strings.Join(labels, "\n")), 0o644)
}

func (s *Session) failing(label string) bool {
	b, err := os.ReadFile(s.ctl("fail"))
	if err != nil {
		return false
	}
	for _, l := range strings.Split(string(b), "\n") {
		if l == label {
			return true
		}
	}
	return false
}

// Crash-point control (child processes only): VERIF_CRASH="<point>|<label>|<n>" kills the
// process with SIGKILL at the n-th hit of (point,label); VERIF_COUNT=<file> appends every hit.
var (
	crashMu    sync.Mutex
	crashHits  = map[string]int{}
	crashSpec  = os.Getenv("VERIF_CRASH")
	countFile  = os.Getenv("VERIF_COUNT")
	countSink  *os.File
	PauseHook  func(id string) // optional: called by v.pause
	EmitChunks func(label string) [][]byte
)

// Disarmed suspends counting and killing (the warm-up build of a long-lived project).
var Disarmed atomic.Bool

// Point is installed as dawn.VerifPoint in children and called by v.body for body.* points.
func Point(name, label string) {
	if (crashSpec == "" && countFile == "") || Disarmed.Load() {
		return
	}
	crashMu.Lock()
	key := name + "|" + label
	crashHits[key]++
	n := crashHits[key]
	if countFile != "" {
		if countSink == nil {
			countSink, _ = os.OpenFile(countFile, os.O_WRONLY|os.O_APPEND|os.O_CREATE, 0o644)
		}
		fmt.Fprintf(countSink, "%s|%d\n", key, n)
	}
	crashMu.Unlock()
	if crashSpec != "" && crashSpec == fmt.Sprintf("%s|%d", key, n) {
		syscall.Kill(os.Getpid(), syscall.SIGKILL)
		select {}
	}
}

func digestInput(path string) string {
	st, err := os.Stat(path)
	if err != nil {
		return "<missing>"
	}
	if !st.IsDir() {
		b, err := os.ReadFile(path)
		if err != nil {
			return "<unreadable>"
		}
		h := sha256.Sum256(b)
		return hex.EncodeToString(h[:8])
	}
	var parts []string
	filepath.Walk(path, func(p string, info os.FileInfo, err error) error {
		if err != nil || info.IsDir() {
			return nil
		}
		rel, _ := filepath.Rel(path, p)
		b, _ := os.ReadFile(p)
		h := sha256.Sum256(b)
		parts = append(parts, rel+"="+hex.EncodeToString(h[:8]))
		return nil
	})
	sort.Strings(parts)
	return "dir{" + strings.Join(parts, ",") + "}"
}

// Module returns the `v` module handed to dawn through LoadOptions.Builtins.
func Module() *starlarkstruct.Module {
	return &starlarkstruct.Module{
		Name: "v",
		Members: starlark.StringDict{
			"body":  starlark.NewBuiltin("v.body", vBody),
			"emit":  starlark.NewBuiltin("v.emit", vEmit),
			"pause": starlark.NewBuiltin("v.pause", vPause),
			"tick":  starlark.NewBuiltin("v.tick", vTick),
		},
	}
}

func threadSession(thread *starlark.Thread) *Session {
	root, _ := thread.Local("root").(string)
	return sessionOfRoot(root)
}

// v.body(label, values, inputs, output)
func vBody(thread *starlark.Thread, fn *starlark.Builtin, args starlark.Tuple, kwargs []starlark.Tuple) (starlark.Value, error) {
	var label, output string
	var values starlark.Value
	var inputs *starlark.List
	if err := starlark.UnpackPositionalArgs(fn.Name(), args, kwargs, 4, &label, &values, &inputs, &output); err != nil {
		return nil, err
	}
	s := threadSession(thread)
	wd := util.Getwd(thread)
	s.logLine("S " + label)
	Point("body.start", label)

	h := sha256.New()
	io.WriteString(h, label+"\x00"+values.String()+"\x00")
	for i := 0; i < inputs.Len(); i++ {
		in := string(inputs.Index(i).(starlark.String))
		io.WriteString(h, in+"="+digestInput(filepath.Join(wd, in))+"\x00")
	}
	sum := hex.EncodeToString(h.Sum(nil))
	fail := s.failing(label)
	if output != "" {
		out := filepath.Join(wd, output)
		os.MkdirAll(filepath.Dir(out), 0o755)
		f, err := os.Create(out)
		if err != nil {
			return nil, err
		}
		f.WriteString(label + "\n" + sum[:32])
		Point("body.mid", label)
		if fail {
			f.Close()
			s.logLine("F " + label)
			return nil, fmt.Errorf("body of %s fails on request", label)
		}
		f.WriteString(sum[32:] + "\n")
		f.Close()
	} else if fail {
		s.logLine("F " + label)
		return nil, fmt.Errorf("body of %s fails on request", label)
	}
	Point("body.end", label)
	s.logLine("E " + label)
	return starlark.None, nil
}

// v.emit(label): writes the text configured for the label through the target's stdout
// (the real lineWriter) in the configured chunks.
func vEmit(thread *starlark.Thread, fn *starlark.Builtin, args starlark.Tuple, kwargs []starlark.Tuple) (starlark.Value, error) {
	var label string
	if err := starlark.UnpackPositionalArgs(fn.Name(), args, kwargs, 1, &label); err != nil {
		return nil, err
	}
	if EmitChunks != nil {
		stdout, _ := util.Stdio(thread)
		for _, chunk := range EmitChunks(label) {
			stdout.Write(chunk)
		}
	}
	return starlark.None, nil
}

func vPause(thread *starlark.Thread, fn *starlark.Builtin, args starlark.Tuple, kwargs []starlark.Tuple) (starlark.Value, error) {
	var id string
	if err := starlark.UnpackPositionalArgs(fn.Name(), args, kwargs, 1, &id); err != nil {
		return nil, err
	}
	if PauseHook != nil {
		PauseHook(id)
	}
	return starlark.None, nil
}

var (
	tickMu sync.Mutex
	Ticks  = map[string]int{}
)

// v.tick(id) counts executions of module top-level code.
func vTick(thread *starlark.Thread, fn *starlark.Builtin, args starlark.Tuple, kwargs []starlark.Tuple) (starlark.Value, error) {
	var id string
	if err := starlark.UnpackPositionalArgs(fn.Name(), args, kwargs, 1, &id); err != nil {
		return nil, err
	}
	root, _ := thread.Local("root").(string)
	tickMu.Lock()
	Ticks[root+"|"+id]++
	tickMu.Unlock()
	return starlark.None, nil
}

func ResetTicks(root string) {
	tickMu.Lock()
	for k := range Ticks {
		if strings.HasPrefix(k, root+"|") {
			delete(Ticks, k)
		}
	}
	tickMu.Unlock()
}

func TicksFor(root string) map[string]int {
	tickMu.Lock()
	defer tickMu.Unlock()
	out := map[string]int{}
	for k, v := range Ticks {
		if strings.HasPrefix(k, root+"|") {
			out[k[len(root)+1:]] = v
		}
	}
	return out
}
