package main

import (
	"bytes"
	"encoding/base64"
	"encoding/binary"
	"encoding/json"
	"fmt"
	"math/big"
	"os"
	"path/filepath"
	"runtime"
	"strconv"
	"strings"
	"sync/atomic"
	"time"

	"github.com/pgavlin/dawn/pickle"
	"github.com/pgavlin/dawn/verifharness/core"
	"github.com/pgavlin/dawn/verifharness/sval"
	"go.starlark.net/starlark"
)

func init() {
	register("C15", "fault_enumeration", runC15)
	registerChild("c15dec", childC15Dec)
}

// overDeclared reports whether, following the decoder's own framing, some 4-byte length field
// declares more bytes than remain (and more than 64 KiB). Such inputs are outside the property.
func overDeclared(b []byte) bool {
	i := 0
	for i < len(b) {
		op := b[i]
		i++
		switch op {
		case '(', 0x94, '.', 'N', 0x88, 0x89, ']', 'a', 'e', ')', 0x85, 0x86, 0x87, 't', '}', 'u', 0x8f, 0x90, 0x93, 0x81:
			if op == '.' {
				return false
			}
		case 'h', 'K':
			i++
		case 'M':
			i += 2
		case 'j', 'J':
			i += 4
		case 'G':
			i += 8
		case 'I':
			for i < len(b) && b[i] != '\n' {
				i++
			}
			i++
		case 0x8c, 'C':
			if i >= len(b) {
				return false
			}
			i += 1 + int(b[i])
		case 'X', 'B':
			if i+4 > len(b) {
				return false
			}
			n := int(binary.LittleEndian.Uint32(b[i:]))
			i += 4
			if n > len(b)-i && n > 1<<16 {
				return true
			}
			i += n
		default:
			return false // unimplemented opcode: the decoder stops here
		}
	}
	return false
}

// wellFormed exercises the decoded value; any panic is reported by the caller.
func wellFormed(v starlark.Value) (problem string) {
	defer func() {
		if r := recover(); r != nil {
			problem = fmt.Sprintf("using the decoded value panics: %v", r)
		}
	}()
	seen := map[starlark.Value]bool{}
	var walk func(v starlark.Value, depth int) string
	walk = func(v starlark.Value, depth int) string {
		if v == nil {
			return "a reachable element is a nil interface"
		}
		if depth > 200 {
			return ""
		}
		_ = v.Type()
		_ = v.Truth()
		v.Hash()
		switch x := v.(type) {
		case starlark.Tuple:
			for _, e := range x {
				if p := walk(e, depth+1); p != "" {
					return p
				}
			}
		case *starlark.List:
			if seen[x] {
				return ""
			}
			seen[x] = true
			for i := 0; i < x.Len(); i++ {
				if p := walk(x.Index(i), depth+1); p != "" {
					return p
				}
			}
		case *starlark.Dict:
			if seen[x] {
				return ""
			}
			seen[x] = true
			for _, kv := range x.Items() {
				if p := walk(kv[0], depth+1); p != "" {
					return p
				}
				if p := walk(kv[1], depth+1); p != "" {
					return p
				}
			}
		case *starlark.Set:
			if seen[x] {
				return ""
			}
			seen[x] = true
			it := x.Iterate()
			var e starlark.Value
			for it.Next(&e) {
				if p := walk(e, depth+1); p != "" {
					it.Done()
					return p
				}
			}
			it.Done()
		case *sval.HostObj:
			if seen[x] {
				return ""
			}
			seen[x] = true
			return walk(x.Args, depth+1)
		}
		return ""
	}
	if p := walk(v, 0); p != "" {
		return p
	}
	_ = v.String()
	starlark.EqualDepth(v, v, 1000)
	v.Freeze()
	return ""
}

type c15Out struct {
	Decodes    int64            `json:"decodes"`
	Values     int64            `json:"values"`
	Errors     int64            `json:"errors"`
	Skipped    int64            `json:"skipped_over_declared"`
	Distinct   int64            `json:"distinct_value_renderings"`
	ErrKinds   map[string]int64 `json:"error_kinds"`
	Violations []c15Viol        `json:"violations"`
}

type c15Viol struct {
	Case    string `json:"case"`
	Symptom string `json:"symptom"`
	Input   string `json:"input_b64"`
	Detail  string `json:"detail"`
}

type c15Runner struct {
	progress int64
	cur      *os.File
	out      c15Out
	distinct map[uint64]struct{}
}

func (r *c15Runner) try(id string, in []byte) {
	if overDeclared(in) {
		r.out.Skipped++
		return
	}
	// write the input to disk first: a fatal runtime error cannot be recovered, so the
	// parent reads this file to name the killing input.
	var hdr [8]byte
	binary.LittleEndian.PutUint32(hdr[:], uint32(len(in)))
	binary.LittleEndian.PutUint32(hdr[4:], uint32(len(id)))
	r.cur.WriteAt(append(append(hdr[:], id...), in...), 0)

	r.out.Decodes++
	defer atomic.AddInt64(&r.progress, 1)
	var v starlark.Value
	var err error
	var pan any
	func() {
		defer func() { pan = recover() }()
		v, err = pickle.NewDecoder(bytes.NewReader(in), pickle.UnpicklerFunc(sval.HostUnpickler)).Decode()
	}()
	viol := func(sym, detail string) {
		if len(r.out.Violations) < 50 {
			r.out.Violations = append(r.out.Violations, c15Viol{id, sym, base64.StdEncoding.EncodeToString(in), detail})
		}
	}
	switch {
	case pan != nil:
		viol("decode-panics", fmt.Sprint(pan))
	case err != nil:
		r.out.Errors++
		k := err.Error()
		if i := strings.IndexAny(k, ":0123456789"); i > 0 {
			k = k[:i]
		}
		if len(r.out.ErrKinds) < 40 {
			r.out.ErrKinds[k]++
		}
	case v == nil:
		viol("nil-value-without-error", "Decode returned (nil, nil)")
	default:
		r.out.Values++
		if p := wellFormed(v); p != "" {
			viol("ill-formed-value", p)
		} else if len(r.distinct) < 2000000 {
			r.distinct[hashStr(sval.Describe(v))] = struct{}{}
		}
	}
}

// c15Corpus returns valid encodings used as mutation seeds.
func c15Corpus(c *core.Ctx) [][]byte {
	var corpus [][]byte
	add := func(v starlark.Value) {
		var buf bytes.Buffer
		if err := pickle.NewEncoder(&buf, pickle.PicklerFunc(sval.HostPickler)).Encode(v); err == nil {
			corpus = append(corpus, buf.Bytes())
		}
	}
	for _, n := range []string{"0", "255", "256", "65535", "65536", "-1", "2147483648", "-9223372036854775809"} {
		x, _ := strconv.ParseInt(n, 10, 64)
		if fmt.Sprint(x) == n {
			add(starlark.MakeInt64(x))
		} else {
			var bi big.Int
			bi.SetString("-340282366920938463463374607431768211457", 10) // a 17-byte integer
			add(starlark.MakeBigInt(&bi))
		}
	}
	add(starlark.None)
	add(starlark.True)
	add(starlark.Float(1.5))
	add(starlark.String("hello"))
	add(starlark.Bytes("\x00\xff"))
	add(starlark.String(strings.Repeat("x", 300)))
	add(starlark.Tuple{})
	add(starlark.Tuple{starlark.MakeInt(1)})
	add(starlark.Tuple{starlark.MakeInt(1), starlark.String("a")})
	add(starlark.Tuple{starlark.MakeInt(1), starlark.String("a"), starlark.None})
	add(starlark.Tuple{starlark.MakeInt(1), starlark.String("a"), starlark.None, starlark.False})
	add(mkContainer("list", 0, 0))
	add(mkContainer("list", 1, 0))
	add(mkContainer("list", 3, 0))
	add(mkContainer("dict", 2, 0))
	add(mkContainer("set", 2, 0))
	add(mkContainer("host", 2, 0))
	self := starlark.NewList(nil)
	self.Append(self)
	add(self)
	sh := starlark.NewList([]starlark.Value{starlark.MakeInt(9)})
	add(starlark.Tuple{sh, sh, starlark.NewDict(0)})
	g := &sval.Gen{R: c.Rand("corpus"), Host: true}
	for i := 0; i < 14; i++ {
		var pool []starlark.Value
		v := g.Value(3, &pool)
		var buf bytes.Buffer
		if err := pickle.NewEncoder(&buf, pickle.PicklerFunc(sval.HostPickler)).Encode(v); err == nil && buf.Len() < 400 {
			corpus = append(corpus, buf.Bytes())
		}
	}
	// real function-environment stamps from a built project
	for _, s := range realStamps(c) {
		corpus = append(corpus, s)
	}
	return corpus
}

func childC15Dec(args []string) {
	// args: corpusFile shard nshards tier seed
	corpusFile, shard, nshards := args[0], atoi(args[1]), atoi(args[2])
	tier := args[3]
	seed, _ := strconv.ParseInt(args[4], 10, 64)
	only := ""
	if len(args) > 5 {
		only = args[5]
	}
	var b64 []string
	raw, _ := os.ReadFile(corpusFile)
	json.Unmarshal(raw, &b64)
	var corpus [][]byte
	for _, s := range b64 {
		d, _ := base64.StdEncoding.DecodeString(s)
		corpus = append(corpus, d)
	}
	cur, err := os.Create(fmt.Sprintf("%s.cur.%d", corpusFile, shard))
	if err != nil {
		core.Fatalf("%v", err)
	}
	r := &c15Runner{cur: cur, distinct: map[uint64]struct{}{}}
	r.out.ErrKinds = map[string]int64{}
	// bounded-progress watchdog: a decode takes microseconds; if the counter of finished decodes
	// does not move for 20 s the current input (already on disk) made the decoder hang
	go func() {
		last, since := int64(-1), time.Now()
		for {
			time.Sleep(time.Second)
			if n := atomic.LoadInt64(&r.progress); n != last {
				last, since = n, time.Now()
			} else if time.Since(since) > 20*time.Second {
				buf := make([]byte, 1<<18)
				fmt.Fprintf(os.Stderr, "DECODE-WATCHDOG: no decode finished for 20 s\n%s\n", buf[:runtime.Stack(buf, true)])
				os.Exit(97)
			}
		}
	}()
	// bounded-space watchdog: inputs are at most a few hundred bytes and their declared lengths are bounded by the input
	// size, so a decoder that holds more than 1.5 GiB has allocated from a length or index field without bound
	go func() {
		for {
			time.Sleep(20 * time.Millisecond)
			if b, err := os.ReadFile("/proc/self/statm"); err == nil {
				var size, rss int64
				fmt.Sscanf(string(b), "%d %d", &size, &rss)
				if rss*int64(os.Getpagesize()) > 3<<29 {
					fmt.Fprintf(os.Stderr, "DECODE-WATCHDOG: resident set %d MiB while decoding an input of a few hundred bytes\n", rss*int64(os.Getpagesize())>>20)
					os.Exit(98)
				}
			}
		}
	}()
	idx := 0
	mine := func(id string) bool {
		idx++
		if only != "" {
			return id == only
		}
		return idx%nshards == shard
	}
	// (1) every single-byte substitution, (2) every truncation
	for si, s := range corpus {
		for p := range s {
			orig := s[p]
			for bb := 0; bb < 256; bb++ {
				if byte(bb) == orig {
					continue
				}
				id := fmt.Sprintf("sub/%d/%d/%d", si, p, bb)
				if mine(id) {
					m := append([]byte(nil), s...)
					m[p] = byte(bb)
					r.try(id, m)
				}
			}
		}
		for p := 0; p < len(s); p++ {
			id := fmt.Sprintf("trunc/%d/%d", si, p)
			if mine(id) {
				r.try(id, s[:p])
			}
		}
	}
	// (3) structure-aware splices, (4) opcode programs from a grammar
	nsplice, nprog := 150000, 150000
	if tier == "thorough" {
		nsplice, nprog = 12000000, 12000000
	}
	rs := core.RandFor(seed, "C15/splice")
	ops := []byte{'(', '.', 'N', 0x88, 0x89, 'I', 'K', 'M', 'J', 'G', 0x8c, 'X', 'C', 'B', ']', 'a', 'e', ')', 0x85, 0x86, 0x87, 't', '}', 'u', 0x8f, 0x90, 0x93, 0x81, 0x94, 'h', 'j', '0', '2', 'd', 'l', 's', 'R', 'b', 0x80, 0x95}
	frag := func() []byte {
		switch rs.IntN(12) {
		case 0:
			return []byte{'(', 'K', byte(rs.IntN(256)), 'N', 'u'}
		case 1:
			return []byte{'(', 'N', 'e'}
		case 2:
			return []byte{0x8c, 4, 'd', 'a', 'w', 'n', 0x8c, 7, 'B', 'u', 'i', 'l', 't', 'i', 'n', 0x93, ')', 0x81}
		case 3:
			return []byte{0x8c, 2, 'v', 'h', 0x8c, 1, 'T', 0x93, 'N', 0x85, 0x81}
		case 4:
			return []byte{'h', byte(rs.IntN(4))}
		case 5:
			return []byte{0x94}
		case 6:
			return []byte{'(', 'N', 'N', 'N', 0x90}
		case 7:
			return []byte{'I', '1', '2', '\n'}
		case 8:
			return []byte{'X', byte(rs.IntN(6)), 0, 0, 0, 'a', 'b'}
		default:
			return []byte{ops[rs.IntN(len(ops))]}
		}
	}
	for i := 0; i < nsplice; i++ {
		s := corpus[rs.IntN(len(corpus))]
		m := append([]byte(nil), s...)
		for k := 1 + rs.IntN(3); k > 0; k-- {
			p := rs.IntN(len(m) + 1)
			switch rs.IntN(4) {
			case 0: // insert a fragment
				f := frag()
				m = append(m[:p:p], append(f, m[p:]...)...)
			case 1: // delete a run
				q := p + rs.IntN(4)
				if q > len(m) {
					q = len(m)
				}
				m = append(m[:p:p], m[q:]...)
			case 2: // duplicate a run
				q := p + 1 + rs.IntN(6)
				if q > len(m) {
					q = len(m)
				}
				m = append(m[:q:q], append(append([]byte(nil), m[p:q]...), m[q:]...)...)
			default: // overwrite an opcode with another one
				if p < len(m) {
					m[p] = ops[rs.IntN(len(ops))]
				}
			}
		}
		id := fmt.Sprintf("splice/%d", i)
		if mine(id) {
			r.try(id, m)
		}
	}
	rp := core.RandFor(seed, "C15/prog")
	for i := 0; i < nprog; i++ {
		var m []byte
		for k := 1 + rp.IntN(14); k > 0; k-- {
			op := ops[rp.IntN(len(ops))]
			m = append(m, op)
			switch op {
			case 'K', 'h':
				m = append(m, byte(rp.IntN(256)))
			case 'M':
				m = append(m, byte(rp.IntN(256)), byte(rp.IntN(256)))
			case 'J', 'j':
				m = append(m, byte(rp.IntN(256)), byte(rp.IntN(3)), 0, 0)
			case 'G':
				for q := 0; q < 8; q++ {
					m = append(m, byte(rp.IntN(256)))
				}
			case 'I':
				m = append(m, []byte(fmt.Sprintf("%d\n", rp.IntN(100000)-50000))...)
			case 0x8c, 'C':
				n := rp.IntN(5)
				m = append(m, byte(n))
				m = append(m, []byte("dawnx"[:n])...)
			case 'X', 'B':
				n := rp.IntN(5)
				m = append(m, byte(n), 0, 0, 0)
				m = append(m, []byte("abcde"[:n])...)
			}
		}
		if rp.IntN(4) != 0 {
			m = append(m, '.')
		}
		id := fmt.Sprintf("prog/%d", i)
		if mine(id) {
			r.try(id, m)
		}
	}
	r.out.Distinct = int64(len(r.distinct))
	b, _ := json.Marshal(r.out)
	os.Stdout.Write(b)
}

func atoi(s string) int { n, _ := strconv.Atoi(s); return n }

func runC15(c *core.Ctx) {
	c.SetRule("decoder: every single-byte substitution (position x 256) and every truncation of ~50 valid encodings incl. real function-environment stamps " +
		"(exhaustive), structure-aware splices and grammar-generated opcode programs (PRNG), inputs whose 4-byte length field over-declares by >64KiB skipped and counted; " +
		"record files: JSON-level and stamp-level (base64/pickle) corruptions and truncations of every record of built projects, followed by Load+Run in a child process; " +
		"non-trivial = the input decodes to a value, or the corrupted record differs semantically; distinct = distinct decoded renderings + distinct record corruptions")
	c.Assume("'well-formed' is read weakly: non-nil and safe to use (String/Type/Truth/Hash/Freeze/EqualDepth); a leaked decoder sentinel is not reported")
	c.Assume("the record oracle mirrors envUnpickler (30 lines) to decide whether a corrupted stamp is semantically different")

	corpus := c15Corpus(c)
	var b64 []string
	total := 0
	for _, s := range corpus {
		b64 = append(b64, base64.StdEncoding.EncodeToString(s))
		total += len(s)
	}
	corpusFile := filepath.Join(c.Scratch, "c15-corpus.json")
	raw, _ := json.Marshal(b64)
	os.WriteFile(corpusFile, raw, 0o644)
	c.Extra("seed_encodings", len(corpus))
	c.Extra("seed_bytes", total)
	c.Extra("exhaustive_part", "every (position, byte) substitution and every truncation of the seed encodings")

	if c.Replay != "" {
		c15ReplayOrRecords(c, corpusFile)
		return
	}

	nsh := runtime.NumCPU()
	if nsh > 14 {
		nsh = 14
	}
	type res struct {
		shard int
		r     *core.ChildResult
	}
	ch := make(chan res, nsh)
	for s := 0; s < nsh; s++ {
		go func(s int) {
			r := c.RunChild(core.ChildOpts{Name: "c15dec", Args: []string{"child", "c15dec", corpusFile, fmt.Sprint(s), fmt.Sprint(nsh), c.Tier, fmt.Sprint(c.Seed)},
				Timeout: 40 * time.Minute, Env: []string{"GOMEMLIMIT=3GiB"}})
			ch <- res{s, r}
		}(s)
	}
	for i := 0; i < nsh; i++ {
		x := <-ch
		if x.r.Exit != 0 || x.r.TimedOut {
			// the child died: its current-input file names the killing input
			cur, _ := os.ReadFile(fmt.Sprintf("%s.cur.%d", corpusFile, x.shard))
			id, in := "?", []byte(nil)
			if len(cur) >= 8 {
				n, m := int(binary.LittleEndian.Uint32(cur)), int(binary.LittleEndian.Uint32(cur[4:]))
				if 8+m+n <= len(cur) {
					id, in = string(cur[8:8+m]), cur[8+m:8+m+n]
				}
			}
			if x.r.Exit == 98 {
				c.Violation(id, "", "decoder-allocates-without-bound", map[string]any{"input_b64": base64.StdEncoding.EncodeToString(in), "bound": "more than 1.5 GiB resident while decoding an input of a few hundred bytes whose declared lengths are bounded by its size", "stderr": lastLines(x.r.Stderr, 5)})
				continue
			}
			if x.r.Exit == 97 {
				c.Violation(id, "", "decoder-does-not-return", map[string]any{"input_b64": base64.StdEncoding.EncodeToString(in), "bound": "no decode finished for 20 s (a decode normally takes microseconds)", "stderr": lastLines(x.r.Stderr, 40)})
				continue
			}
			if x.r.TimedOut && x.r.FatalKind() == "" {
				c.Inconclusive(fmt.Sprintf("decoder shard %d hit the wall-clock watchdog at input %s", x.shard, id))
				continue
			}
			c.Violation(id, "", "decoder-kills-process:"+x.r.FatalKind(), map[string]any{"input_b64": base64.StdEncoding.EncodeToString(in), "stderr": lastLines(x.r.Stderr, 30), "exit": x.r.Exit, "signal": x.r.Signal})
			continue
		}
		var out c15Out
		if err := json.Unmarshal([]byte(x.r.Stdout), &out); err != nil {
			c.Inconclusive(fmt.Sprintf("decoder shard %d: unreadable result: %v", x.shard, err))
			continue
		}
		c.EvalN(out.Decodes)
		c.Count("decodes", out.Decodes)
		c.Count("decoded_to_value", out.Values)
		c.Count("decoded_to_error", out.Errors)
		c.Count("skipped_over_declared", out.Skipped)
		for k, v := range out.ErrKinds {
			c.Count("error:"+k, v)
		}
		for k := int64(0); k < out.Distinct && k < 200000; k++ {
			c.Distinct(fmt.Sprintf("d%d/%d", x.shard, k))
		}
		for _, v := range out.Violations {
			c.Violation(v.Case, "", v.Symptom, map[string]any{"input_b64": v.Input, "detail": v.Detail})
		}
	}
	c.Sample(map[string]any{"kind": "seed encoding (base64)", "value": b64[len(b64)-1][:min(120, len(b64[len(b64)-1]))]})
	c.Sample(map[string]any{"kind": "mutation case ids", "value": []string{"sub/<seed>/<pos>/<byte>", "trunc/<seed>/<len>", "splice/<i>", "prog/<i>"}})

	if c.Violations() > 0 {
		// the decoder itself is already refuted; the record sweep would only repeat it slowly
		c.Count("record_sweep_skipped_after_decoder_violations", 1)
		return
	}
	c15Records(c)
}

func lastLines(s string, n int) string {
	l := strings.Split(strings.TrimRight(s, "\n"), "\n")
	if len(l) > n {
		l = l[:n]
	}
	return strings.Join(l, "\n")
}

func c15ReplayOrRecords(c *core.Ctx, corpusFile string) {
	// decoder cases are replayed in a child (they may kill the process); record cases by c15Records.
	b, _ := os.ReadFile(c.Replay)
	var r struct {
		Case string `json:"case"`
	}
	json.Unmarshal(b, &r)
	if strings.HasPrefix(r.Case, "rec/") || strings.HasPrefix(r.Case, "irec/") || strings.HasPrefix(r.Case, "lrec/") || strings.HasPrefix(r.Case, "idx/") {
		c15Records(c)
		return
	}
	x := c.RunChild(core.ChildOpts{Name: "c15dec", Args: []string{"child", "c15dec", corpusFile, "0", "1", c.Tier, fmt.Sprint(c.Seed), r.Case}, Timeout: 20 * time.Minute})
	var out c15Out
	json.Unmarshal([]byte(x.Stdout), &out)
	c.EvalN(out.Decodes)
	if x.Exit != 0 {
		c.Violation(r.Case, "", "decoder-kills-process:"+x.FatalKind(), map[string]any{"stderr": lastLines(x.Stderr, 30)})
	}
	for _, v := range out.Violations {
		c.Violation(v.Case, "", v.Symptom, map[string]any{"input_b64": v.Input, "detail": v.Detail})
	}
}
