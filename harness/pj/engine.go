package pj

import (
	"fmt"
	"os"
	"path/filepath"
	"sort"
	"strings"
	"time"
)

// ---- reference model ----------------------------------------------------------------------

// MT is the model state of one function target. All times are values of one logical clock
// that ticks on every edit and every execution-log entry. The model is state based: a target
// is current when the snapshot taken at its last successful execution equals the present state
// of everything the property enumerates as its inputs.
type MT struct {
	LastOK         int    // logical time of the last successful body completion (0 = never)
	LastFail       int    // logical time of the last failed or interrupted execution
	UncertainSince int    // latest change for which the statement creates no expectation either way
	SnapDesc       string // code and referenced values at the last successful execution
	SnapSrc        string // content digests of sources at the last successful execution
	Started        bool
	GenDigest      string
}

type Model struct {
	Clock int
	T     map[string]*MT
}

func (m *Model) mt(label string) *MT {
	t := m.T[label]
	if t == nil {
		t = &MT{}
		m.T[label] = t
	}
	return t
}

func (m *Model) tick() int { m.Clock++; return m.Clock }

// Certain: no uncertain change since its last execution.
func (m *Model) Certain(label string) bool {
	t := m.T[label]
	return t != nil && t.LastOK > t.UncertainSince
}

// ---- engine -------------------------------------------------------------------------------

type Finding struct {
	Kind   string `json:"kind"` // stale | spurious | output-differs | ...
	Label  string `json:"label"`
	Detail string `json:"detail"`
}

type Step struct {
	N        int       `json:"n"`
	Op       string    `json:"op"`
	Desc     string    `json:"desc"`
	Executed []string  `json:"executed,omitempty"`
	RunErr   string    `json:"run_err,omitempty"`
	LoadErr  string    `json:"load_err,omitempty"`
	Findings []Finding `json:"findings,omitempty"`
}

type Engine struct {
	S     *Session
	P     *Proj
	G     *Gen
	M     *Model
	Steps []Step
	// ChildBuild, if set, runs a build in a fresh process instead of in-process.
	prevSrc    map[string]string // content of a source before its last content edit
	ChildBuild func(req BuildReq, env []string) (BuildRes, bool)
	// Live, when set, serves the in-process builds from one long-lived Project (Reload + Run)
	Live     *Live
	LastRes  BuildRes
	nAdd     int
	preStale map[string]string
}

func NewEngine(s *Session, p *Proj, g *Gen) *Engine {
	e := &Engine{S: s, P: p, G: g, M: &Model{T: map[string]*MT{}}}
	p.WriteAll(s.Root)
	for _, t := range p.AllTargets() {
		e.M.mt(t.Label())
	}
	return e
}

func (e *Engine) step(op, desc string) *Step {
	e.Steps = append(e.Steps, Step{N: len(e.Steps), Op: op, Desc: desc})
	return &e.Steps[len(e.Steps)-1]
}

// relevant is kept as documentation of intent at the edit sites: whether a target must run is
// decided from state (Stale), not from the edit history.
func (e *Engine) relevant(label string)  {}
func (e *Engine) uncertain(label string) { e.M.mt(label).UncertainSince = e.M.Clock }

// Desc renders everything of the target's function environment the generator knows: the body
// statement and the definitions of every atom it references (transitively), plus the flag value.
func (e *Engine) Desc(t *Tgt) string {
	var b strings.Builder
	vals := append([]string{}, t.Uses...)
	vals = append(vals, fmt.Sprint(t.Extra))
	fmt.Fprintf(&b, "emit=%v body(%q, [%s], %s, %q)\n", t.Emit, t.Label(), strings.Join(vals, ", "), quoteList(e.P.Inputs(t)), t.Gen)
	ids := make([]string, 0)
	for id := range e.P.RefClosure(t) {
		ids = append(ids, id)
	}
	sort.Strings(ids)
	for _, id := range ids {
		i := strings.Index(id, "|")
		a := e.P.atom(id[:i], id[i+1:])
		if a == nil {
			continue
		}
		fmt.Fprintf(&b, "%s: %s %q def=%q refs=%v\n", id, a.Kind, a.Lit, a.Def, a.Refs)
		if a.Kind == "flag" {
			fmt.Fprintf(&b, "flag=%q\n", e.P.FlagVal)
		}
	}
	return b.String()
}

// SrcState digests the declared sources (files, directories, generated files) of the target.
func (e *Engine) SrcState(t *Tgt) string {
	var b strings.Builder
	for _, s := range t.Sources {
		fmt.Fprintf(&b, "%s=%s;", s, digestInput(filepath.Join(e.S.Root, t.Pkg, s)))
	}
	for _, g := range t.GenSrc {
		if gt := e.P.Target(g); gt != nil && gt.Gen != "" {
			fmt.Fprintf(&b, "gen:%s=%s;", g, digestInput(filepath.Join(e.S.Root, gt.Pkg, gt.Gen)))
		}
	}
	return b.String()
}

// Stale returns "" if the target is current by the first sentence of C01, else the reason.
func (e *Engine) Stale(label string) string {
	t := e.P.Target(label)
	mt := e.M.T[label]
	if t == nil || mt == nil {
		return "unknown target"
	}
	switch {
	case mt.LastOK == 0:
		return "it never executed successfully"
	case mt.LastFail > mt.LastOK:
		return fmt.Sprintf("its last execution (t=%d) failed or was interrupted after its last success (t=%d)", mt.LastFail, mt.LastOK)
	case mt.SnapDesc != e.Desc(t):
		return "the code or a value its function references changed since its last successful execution:\n  then: " + mt.SnapDesc + "  now:  " + e.Desc(t)
	case mt.SnapSrc != e.SrcState(t):
		return "the contents of a source changed since its last successful execution: then " + mt.SnapSrc + " now " + e.SrcState(t)
	}
	if t.Gen != "" {
		if _, err := os.Stat(filepath.Join(e.S.Root, t.Pkg, t.Gen)); err != nil {
			return "its declared output " + t.Gen + " does not exist"
		}
	}
	for _, d := range t.Deps {
		if dm := e.M.T[d]; dm != nil && dm.LastOK > mt.LastOK {
			return fmt.Sprintf("its dependency %s executed successfully (t=%d) after its own last execution (t=%d)", d, dm.LastOK, mt.LastOK)
		}
	}
	return ""
}

// srcTargets returns the targets that list the root-relative file (or a directory containing
// it) as a source.
func (e *Engine) srcTargets(rel string) []*Tgt {
	var out []*Tgt
	for _, t := range e.P.AllTargets() {
		for _, s := range t.Sources {
			full := filepath.Join(t.Pkg, s)
			if full == rel || strings.HasPrefix(rel, full+"/") {
				out = append(out, t)
				break
			}
		}
	}
	return out
}

func (e *Engine) dependents(label string) (deps, gensrc []*Tgt) {
	for _, t := range e.P.AllTargets() {
		for _, d := range t.Deps {
			if d == label {
				deps = append(deps, t)
			}
		}
		for _, d := range t.GenSrc {
			if d == label {
				gensrc = append(gensrc, t)
			}
		}
	}
	return
}

// Closure returns the labels of all function targets reachable from root.
func (e *Engine) Closure(root string) []string {
	seen := map[string]bool{}
	var visit func(l string)
	visit = func(l string) {
		if seen[l] {
			return
		}
		t := e.P.Target(l)
		if t == nil {
			return
		}
		seen[l] = true
		for _, d := range t.Deps {
			visit(d)
		}
		for _, d := range t.GenSrc {
			visit(d)
		}
	}
	visit(root)
	out := make([]string, 0, len(seen))
	for l := range seen {
		out = append(out, l)
	}
	sort.Strings(out)
	return out
}

// atomEdited classifies an edit of atom a for every target.
func (e *Engine) atomEdited(a *Atom) {
	id := a.File + "|" + a.Name
	for _, t := range e.P.AllTargets() {
		switch {
		case e.P.RefClosure(t)[id]:
			e.relevant(t.Label())
		case e.P.FilesOf(t)[a.File]:
			e.uncertain(t.Label())
		}
	}
}

// fileStructureEdited: statements were added/removed in a file; no expectation either way for
// every target whose environment can see that file.
func (e *Engine) fileStructureEdited(file string) {
	for _, t := range e.P.AllTargets() {
		if e.P.FilesOf(t)[file] {
			e.uncertain(t.Label())
		}
	}
}

func (e *Engine) sortedSrcs() []string {
	out := make([]string, 0, len(e.P.Srcs))
	for k := range e.P.Srcs {
		out = append(out, k)
	}
	sort.Strings(out)
	return out
}

func (e *Engine) atoms() []*Atom {
	var out []*Atom
	for _, id := range e.P.Order {
		out = append(out, e.P.Files[id].Atoms...)
	}
	return out
}

var EditKinds = []string{
	"src-content", "src-content", "src-touch", "src-rewrite-same", "src-rewrite-rename", "dir-add", "dir-del", "dir-rename",
	"src-delete", "src-restore", "subdir-rename", "atom-lit", "atom-lit", "atom-lit", "atom-default", "tgt-extra", "comment", "comment", "docstring", "dep-add", "dep-remove", "tgt-add",
	"tgt-remove", "output-delete", "flag", "const-add", "src-revert", "src-revert", "atom-revert", "src-stealth", "src-stealth",
}

// Edit applies one random edit of the given kind ("" = random). It returns false if the
// kind is not applicable to the current project.
func (e *Engine) Edit(kind string) bool {
	r := e.G.R
	if kind == "" {
		kind = EditKinds[r.IntN(len(EditKinds))]
	}
	e.M.tick()
	root := e.S.Root
	switch kind {
	case "src-content":
		srcs := e.sortedSrcs()
		rel := srcs[r.IntN(len(srcs))]
		if e.prevSrc == nil {
			e.prevSrc = map[string]string{}
		}
		e.prevSrc[rel] = e.P.Srcs[rel]
		e.P.Srcs[rel] = fmt.Sprintf("edited at %d: %d\n", e.M.Clock, r.IntN(1000000))
		delete(e.P.Missing, rel)
		os.WriteFile(filepath.Join(root, rel), []byte(e.P.Srcs[rel]), 0o644)
		for _, t := range e.srcTargets(rel) {
			e.relevant(t.Label())
		}
		e.step("edit", "src-content "+rel)
	case "src-stealth":
		// the content of a source changes while its size and its modification time stay what they were (cp -p, rsync -t,
		// tar x with normalised times): only the content hash can tell
		srcs := e.sortedSrcs()
		rel := srcs[r.IntN(len(srcs))]
		full := filepath.Join(root, rel)
		st, err := os.Stat(full)
		old := e.P.Srcs[rel]
		if err != nil || e.P.Missing[rel] || len(old) == 0 {
			return false
		}
		b := []byte(old)
		i := r.IntN(len(b))
		if b[i] == '\n' {
			i = 0
		}
		nb := byte('a' + r.IntN(26))
		for nb == b[i] {
			nb = byte('a' + r.IntN(26))
		}
		b[i] = nb
		e.P.Srcs[rel] = string(b)
		os.WriteFile(full, b, 0o644)
		os.Chtimes(full, st.ModTime(), st.ModTime())
		for _, t := range e.srcTargets(rel) {
			e.relevant(t.Label())
		}
		e.step("edit", "src-stealth "+rel+" (same size, same mtime)")
	case "src-revert":
		// a source file gets back the content it had before its last edit (A -> B -> A)
		var cands []string
		for rel := range e.prevSrc {
			if _, ok := e.P.Srcs[rel]; ok && !e.P.Missing[rel] && e.prevSrc[rel] != e.P.Srcs[rel] {
				cands = append(cands, rel)
			}
		}
		if len(cands) == 0 {
			return false
		}
		sort.Strings(cands)
		rel := cands[r.IntN(len(cands))]
		e.P.Srcs[rel], e.prevSrc[rel] = e.prevSrc[rel], e.P.Srcs[rel]
		os.WriteFile(filepath.Join(root, rel), []byte(e.P.Srcs[rel]), 0o644)
		// A target that last ran on the intermediate content is stale again (state decides that). One that still holds
		// the content now restored is current - unless another target sharing the source was built on the intermediate
		// content meanwhile: the source's single record then moved on and dawn re-executes every target listing it (the
		// known finding of C02, named scenarios). No expectation either way for the listing targets.
		for _, t := range e.srcTargets(rel) {
			e.uncertain(t.Label())
		}
		e.step("edit", "src-revert "+rel)
	case "atom-revert":
		// a constant / literal gets back the value it had before its last edit
		var cands []*Atom
		for _, a := range e.atoms() {
			if a.PrevLit != "" && a.PrevLit != a.Lit {
				cands = append(cands, a)
			}
		}
		if len(cands) == 0 {
			return false
		}
		a := cands[r.IntN(len(cands))]
		old := a.Lit
		a.Lit, a.PrevLit = a.PrevLit, a.Lit
		e.atomEdited(a)
		e.P.WriteFile(root, a.File)
		e.step("edit", fmt.Sprintf("atom-revert %s|%s: %s -> %s", a.File, a.Name, trunc(old), trunc(a.Lit)))
	case "subdir-rename":
		// rename a sub-directory inside a source directory (its files keep names and contents)
		var subs []string
		seen := map[string]bool{}
		for _, rel := range e.sortedSrcs() {
			if i := strings.Index(rel, "dir0/"); i >= 0 {
				rest := rel[i+5:]
				if j := strings.Index(rest, "/"); j > 0 {
					d := rel[:i+5] + rest[:j]
					if !seen[d] {
						seen[d] = true
						subs = append(subs, d)
					}
				}
			}
		}
		if len(subs) == 0 {
			return false
		}
		from := subs[r.IntN(len(subs))]
		to := fmt.Sprintf("%s_%d", strings.TrimRight(from, "0123456789_"), e.M.Clock)
		if err := os.Rename(filepath.Join(root, from), filepath.Join(root, to)); err != nil {
			return false
		}
		for _, rel := range e.sortedSrcs() {
			if strings.HasPrefix(rel, from+"/") {
				e.P.Srcs[to+rel[len(from):]] = e.P.Srcs[rel]
				delete(e.P.Srcs, rel)
			}
		}
		e.step("edit", "subdir-rename "+from+" -> "+to)
	case "src-delete":
		// the file of a still declared source disappears
		var cands []string
		for _, rel := range e.sortedSrcs() {
			if !e.P.Missing[rel] && !strings.Contains(rel, "dir0/") {
				cands = append(cands, rel)
			}
		}
		if len(cands) == 0 {
			return false
		}
		rel := cands[r.IntN(len(cands))]
		if e.P.Missing == nil {
			e.P.Missing = map[string]bool{}
		}
		e.P.Missing[rel] = true
		os.Remove(filepath.Join(root, rel))
		e.step("edit", "src-delete "+rel)
	case "src-restore":
		// ... and comes back with identical content
		var cands []string
		for rel := range e.P.Missing {
			if e.P.Missing[rel] {
				cands = append(cands, rel)
			}
		}
		if len(cands) == 0 {
			return false
		}
		sort.Strings(cands)
		rel := cands[r.IntN(len(cands))]
		delete(e.P.Missing, rel)
		os.WriteFile(filepath.Join(root, rel), []byte(e.P.Srcs[rel]), 0o644)
		// The content is back to what the targets listing it last saw. If another target that
		// shares the source was built while it was missing, the source's record moved on and dawn
		// re-executes every target listing it (known finding, named scenario of C02): no
		// expectation either way for them.
		for _, t := range e.srcTargets(rel) {
			e.uncertain(t.Label())
		}
		e.step("edit", "src-restore "+rel)
	case "src-touch":
		srcs := e.sortedSrcs()
		rel := srcs[r.IntN(len(srcs))]
		ts := time.Now().Add(time.Duration(r.IntN(100000)-50000) * time.Second)
		os.Chtimes(filepath.Join(root, rel), ts, ts)
		e.step("edit", "src-touch "+rel)
	case "src-rewrite-same", "src-rewrite-rename":
		srcs := e.sortedSrcs()
		rel := srcs[r.IntN(len(srcs))]
		if e.P.Missing[rel] {
			return false
		}
		p := filepath.Join(root, rel)
		if kind == "src-rewrite-same" {
			os.WriteFile(p, []byte(e.P.Srcs[rel]), 0o644)
		} else {
			tmp := filepath.Join(e.S.Dir, "ctl", "rewrite.tmp")
			os.WriteFile(tmp, []byte(e.P.Srcs[rel]), 0o644)
			os.Rename(tmp, p)
		}
		e.step("edit", kind+" "+rel)
	case "dir-add", "dir-del", "dir-rename":
		var members []string
		for _, rel := range e.sortedSrcs() {
			if strings.Contains(rel, "dir0/") {
				members = append(members, rel)
			}
		}
		if len(members) == 0 {
			return false
		}
		m := members[r.IntN(len(members))]
		dir := m[:strings.Index(m, "dir0/")+4]
		switch kind {
		case "dir-add":
			rel := filepath.Join(dir, fmt.Sprintf("n%d.txt", e.M.Clock))
			e.P.Srcs[rel] = "new file\n"
			os.WriteFile(filepath.Join(root, rel), []byte(e.P.Srcs[rel]), 0o644)
			for _, t := range e.srcTargets(rel) {
				e.relevant(t.Label())
			}
			e.step("edit", "dir-add "+rel)
		case "dir-del":
			// never empty a directory: an empty directory cannot be reproduced in the from-scratch
			// copy, which is written file by file
			siblings := 0
			for _, o := range members {
				if filepath.Dir(o) == filepath.Dir(m) {
					siblings++
				}
			}
			if siblings < 2 {
				return false
			}
			for _, t := range e.srcTargets(m) {
				e.relevant(t.Label())
			}
			delete(e.P.Srcs, m)
			os.Remove(filepath.Join(root, m))
			e.step("edit", "dir-del "+m)
		case "dir-rename":
			to := filepath.Join(filepath.Dir(m), fmt.Sprintf("r%d.txt", e.M.Clock))
			for _, t := range e.srcTargets(m) {
				e.relevant(t.Label())
			}
			e.P.Srcs[to] = e.P.Srcs[m]
			delete(e.P.Srcs, m)
			os.Rename(filepath.Join(root, m), filepath.Join(root, to))
			e.step("edit", "dir-rename "+m+" -> "+to)
		}
	case "atom-lit", "atom-default":
		as := e.atoms()
		var cands []*Atom
		for _, a := range as {
			if kind == "atom-default" && a.Def == "" {
				continue
			}
			if a.Kind == "flag" {
				continue
			}
			cands = append(cands, a)
		}
		if len(cands) == 0 {
			return false
		}
		a := cands[r.IntN(len(cands))]
		old := a.Lit
		if kind == "atom-lit" {
			a.PrevLit = a.Lit
		}
		switch {
		case kind == "atom-default":
			old = a.Def
			a.Def = fmt.Sprint(r.IntN(70000))
			for a.Def == old {
				a.Def = fmt.Sprint(r.IntN(70000))
			}
		case a.Kind == "closure":
			a.Lit = fmt.Sprint(r.IntN(70000))
			for a.Lit == old {
				a.Lit = fmt.Sprint(r.IntN(70000))
			}
		case strings.HasPrefix(a.Lit, "list(range("):
			a.Lit = e.G.bigLiteral()
			for a.Lit == old {
				a.Lit = e.G.bigLiteral()
			}
		default:
			a.Lit = e.G.Literal(old)
		}
		e.atomEdited(a)
		e.P.WriteFile(root, a.File)
		e.step("edit", fmt.Sprintf("%s %s|%s: %s -> %s", kind, a.File, a.Name, trunc(old), trunc(a.Lit+a.Def)))
	case "tgt-extra":
		ts := e.P.AllTargets()
		t := ts[r.IntN(len(ts))]
		t.Extra += 1 + r.IntN(1000)
		e.relevant(t.Label())
		for _, o := range e.P.Files["pkg:"+t.Pkg].Tgts {
			if o != t {
				e.uncertain(o.Label())
			}
		}
		e.P.WriteFile(root, "pkg:"+t.Pkg)
		e.step("edit", "tgt-extra "+t.Label())
	case "comment":
		id := e.P.Order[r.IntN(len(e.P.Order))]
		f := e.P.Files[id]
		switch n := r.IntN(3); {
		case n == 0 && len(f.Atoms) > 0:
			f.Atoms[r.IntN(len(f.Atoms))].Pad += 1 + r.IntN(3)
		case n == 1 && len(f.Tgts) > 0:
			f.Tgts[r.IntN(len(f.Tgts))].Pad += 1 + r.IntN(3)
		default:
			f.Tail += 1 + r.IntN(3)
		}
		e.P.WriteFile(root, id)
		e.step("edit", "comment/whitespace in "+id)
	case "docstring":
		ts := e.P.AllTargets()
		t := ts[r.IntN(len(ts))]
		t.Doc = fmt.Sprintf("Doc edited at %d.", e.M.Clock)
		e.P.WriteFile(root, "pkg:"+t.Pkg)
		e.step("edit", "docstring "+t.Label())
	case "dep-add", "dep-remove":
		ts := e.P.AllTargets()
		t := ts[r.IntN(len(ts))]
		if kind == "dep-remove" {
			if len(t.Deps) == 0 || (t.Name == "all" && len(t.Deps) == 1) {
				return false
			}
			i := r.IntN(len(t.Deps))
			d := e.P.Target(t.Deps[i])
			t.Deps = append(t.Deps[:i:i], t.Deps[i+1:]...)
			if d != nil && d.Gen != "" {
				e.relevant(t.Label()) // the body's input list (its code) changed
			} else {
				e.uncertain(t.Label())
			}
			e.step("edit", fmt.Sprintf("dep-remove %s -/-> %s", t.Label(), d.Label()))
		} else {
			// only edges to targets that do not reach t (keeps the graph acyclic)
			var cands []*Tgt
			for _, d := range ts {
				if d == t || contains(t.Deps, d.Label()) || contains(e.Closure(d.Label()), t.Label()) {
					continue
				}
				cands = append(cands, d)
			}
			if len(cands) == 0 {
				return false
			}
			d := cands[r.IntN(len(cands))]
			t.Deps = append(t.Deps, d.Label())
			e.uncertain(t.Label())
			e.step("edit", fmt.Sprintf("dep-add %s -> %s", t.Label(), d.Label()))
		}
		for _, o := range e.P.Files["pkg:"+t.Pkg].Tgts {
			if o != t {
				e.uncertain(o.Label())
			}
		}
		e.P.WriteFile(root, "pkg:"+t.Pkg)
	case "tgt-add":
		ts := e.P.AllTargets()
		base := ts[r.IntN(len(ts))]
		e.nAdd++
		t := &Tgt{Pkg: base.Pkg, Name: fmt.Sprintf("n%d", e.nAdd), Extra: r.IntN(100), Gen: fmt.Sprintf("out/n%d.txt", e.nAdd)}
		for _, d := range ts {
			// (not onto something that reaches //:all, which may come to depend on the new target: the graph stays acyclic)
			if d.Name != "all" && r.IntN(4) == 0 && !contains(e.Closure(d.Label()), "//:all") {
				t.Deps = append(t.Deps, d.Label())
			}
		}
		f := e.P.Files["pkg:"+t.Pkg]
		for _, a := range f.Atoms {
			if r.IntN(2) == 0 {
				e.G.use(t, a)
			}
		}
		e.fileStructureEdited(f.ID)
		f.Tgts = append(f.Tgts, t)
		e.M.mt(t.Label())
		if all := e.P.Target("//:all"); all != nil && r.IntN(2) == 0 {
			all.Deps = append(all.Deps, t.Label())
			e.relevant("//:all")
			e.fileStructureEdited("pkg:")
			e.P.WriteFile(root, "pkg:")
		}
		e.P.WriteFile(root, f.ID)
		e.step("edit", "tgt-add "+t.Label())
	case "tgt-remove":
		ts := e.P.AllTargets()
		t := ts[r.IntN(len(ts))]
		if t.Name == "all" || len(ts) < 4 {
			return false
		}
		lbl := t.Label()
		touched := map[string]bool{"pkg:" + t.Pkg: true}
		for _, o := range ts {
			before := len(o.Deps) + len(o.GenSrc)
			o.Deps = without(o.Deps, lbl)
			o.GenSrc = without(o.GenSrc, lbl)
			if len(o.Deps)+len(o.GenSrc) != before {
				touched["pkg:"+o.Pkg] = true
				if t.Gen != "" {
					e.relevant(o.Label())
				} else {
					e.uncertain(o.Label())
				}
			}
		}
		if all := e.P.Target("//:all"); all != nil && len(all.Deps) == 0 {
			for _, o := range ts {
				if o != t && o.Name != "all" {
					all.Deps = []string{o.Label()}
					break
				}
			}
			e.relevant("//:all")
		}
		f := e.P.Files["pkg:"+t.Pkg]
		for i, o := range f.Tgts {
			if o == t {
				f.Tgts = append(f.Tgts[:i:i], f.Tgts[i+1:]...)
				break
			}
		}
		delete(e.M.T, lbl)
		for id := range touched {
			e.fileStructureEdited(id)
			e.P.WriteFile(root, id)
		}
		e.step("edit", "tgt-remove "+lbl)
	case "output-delete":
		var cands []*Tgt
		for _, t := range e.P.AllTargets() {
			if t.Gen != "" {
				if _, err := os.Stat(filepath.Join(root, t.Pkg, t.Gen)); err == nil {
					cands = append(cands, t)
				}
			}
		}
		if len(cands) == 0 {
			return false
		}
		t := cands[r.IntN(len(cands))]
		os.Remove(filepath.Join(root, t.Pkg, t.Gen))
		e.relevant(t.Label())
		_, gs := e.dependents(t.Label())
		for _, o := range gs {
			e.relevant(o.Label())
		}
		e.step("edit", "output-delete "+t.Label())
	case "flag":
		a := e.P.atom("pkg:", "FLAGMODE")
		if a == nil {
			return false
		}
		e.P.FlagVal = fmt.Sprintf("m%d", r.IntN(1000))
		e.P.Args = []string{"--flagmode=" + e.P.FlagVal}
		id := a.File + "|" + a.Name
		for _, t := range e.P.AllTargets() {
			if e.P.RefClosure(t)[id] {
				e.relevant(t.Label())
			}
		}
		e.step("edit", "flag --flagmode="+e.P.FlagVal)
	case "const-add":
		id := e.P.Order[r.IntN(len(e.P.Order))]
		f := e.P.Files[id]
		e.nAdd++
		a := &Atom{Name: fmt.Sprintf("NEW%d", e.nAdd), File: id, Kind: "const", Lit: e.G.Literal("")}
		at := r.IntN(len(f.Atoms) + 1)
		f.Atoms = append(f.Atoms[:at:at], append([]*Atom{a}, f.Atoms[at:]...)...)
		e.fileStructureEdited(id)
		e.P.WriteFile(root, id)
		e.step("edit", "const-add "+id)
	default:
		return false
	}
	return true
}

func trunc(s string) string {
	if len(s) > 40 {
		return s[:40] + "…"
	}
	return s
}

func contains(xs []string, x string) bool {
	for _, y := range xs {
		if y == x {
			return true
		}
	}
	return false
}

func without(xs []string, x string) []string {
	var out []string
	for _, y := range xs {
		if y != x {
			out = append(out, y)
		}
	}
	return out
}

type BuildOpt struct {
	Always  bool
	Dry     bool
	Failing []string // labels whose bodies fail
	Child   bool     // run in a fresh process
	Env     []string // extra environment for the child (crash injection)
	NoCheck bool     // do not judge C01 at the end (e.g. the build was killed)
	// WarmOverlay: the tree currently holds the state before the last edits and WarmOverlay the tree after them; the
	// (child) build first builds everything on a fresh Project, applies the overlay, Reload()s and only then runs the
	// requested build - a long-lived project, as under `dawn watch`. The warm-up's executions are not fed to the model
	// (they re-establish what the model already knows: everything was current before the edits).
	WarmOverlay string
	// DryFirst: the build is preceded, on the same loaded Project, by a dry run of the same target (a REPL session or a
	// library user doing run(dry_run=True) and then run())
	DryFirst bool
}

// Build runs one build of target and feeds the execution log to the model. It returns the
// step (with C01 "stale" and C02 "spurious" findings) and the raw result.
func (e *Engine) Build(target string, o BuildOpt) (*Step, BuildRes, bool) {
	e.S.SetFailing(o.Failing)
	from := e.S.LogLen()
	// whether each target had to run is judged against the state before the build (a body
	// re-creates its output, which would hide a deleted output afterwards)
	e.preStale = map[string]string{}
	for l := range e.M.T {
		e.preStale[l] = e.Stale(l)
	}
	req := BuildReq{Root: e.S.Root, Target: target, Always: o.Always, Dry: o.Dry, Args: e.P.Args}
	if o.WarmOverlay != "" {
		req.WarmOverlay, req.WarmLog = o.WarmOverlay, e.S.LogPath()
	}
	if o.DryFirst && !o.Dry {
		req.Twice, req.DryFirst = true, true
	}
	var res BuildRes
	alive := true
	switch {
	case o.Child && e.ChildBuild != nil:
		res, alive = e.ChildBuild(req, o.Env)
	case e.Live != nil:
		res = e.Live.Build(req) // Reload() + Run() on one long-lived Project (the `dawn watch` path)
	default:
		res = Build(req)
	}
	if o.DryFirst && !o.Dry {
		// the result that counts is the real (second) run's; its events follow the SecondRun marker
		res.RunErr = res.Run2Err
		for i, ev := range res.Events {
			if ev.Kind == "SecondRun" {
				res.DryEvents, res.Events = res.Events[:i], res.Events[i+1:]
				break
			}
		}
	}
	e.LastRes = res
	desc := target
	if o.Always {
		desc += " always"
	}
	if o.Dry {
		desc += " dry"
	}
	if o.Child {
		desc += " child"
	}
	if len(o.Failing) > 0 {
		desc += " failing=" + strings.Join(o.Failing, ",")
	}
	if !alive {
		desc += " KILLED"
	}
	st := e.step("build", desc)
	st.RunErr, st.LoadErr = res.RunErr, res.LoadErr
	e.consumeLog(st, from, o.Always)
	if !alive {
		// The process died: a body that finished may or may not have been recorded. Re-executing it
		// is the safe behaviour, not executing it is fine too if the record was written: no
		// expectation either way for the targets that started.
		for _, l := range st.Executed {
			e.M.mt(l).UncertainSince = e.M.tick()
		}
	}
	if alive && res.LoadErr == "" && res.RunErr == "" && !o.Dry && !o.NoCheck {
		for _, l := range e.Closure(target) {
			if why := e.Stale(l); why != "" {
				st.Findings = append(st.Findings, Finding{"stale", l,
					fmt.Sprintf("build of %s reported success but %s is not current: %s", target, l, why)})
			}
		}
	}
	return st, res, alive
}

// consumeLog feeds execution-log entries written since `from` to the model.
func (e *Engine) consumeLog(st *Step, from int, always bool) {
	entries := e.S.ReadLog(from)
	for i := len(entries) - 1; i >= 0; i-- {
		if entries[i].Kind == "W" { // everything before the marker belongs to a warm-up build
			entries = entries[i+1:]
			break
		}
	}
	for _, le := range entries {
		if le.Kind == "M" {
			continue
		}
		now := e.M.tick()
		mt := e.M.mt(le.Label)
		t := e.P.Target(le.Label)
		switch le.Kind {
		case "S":
			for _, prev := range st.Executed {
				if prev == le.Label {
					st.Findings = append(st.Findings, Finding{"executed-twice", le.Label, "the body ran twice in one build"})
				}
			}
			st.Executed = append(st.Executed, le.Label)
			if !always && t != nil && !t.Always && e.preStale[le.Label] == "" && e.Stale(le.Label) == "" && e.M.Certain(le.Label) {
				st.Findings = append(st.Findings, Finding{"spurious", le.Label,
					fmt.Sprintf("body executed although nothing it depends on changed since its last successful execution (last ok t=%d, last uncertain change t=%d)", mt.LastOK, mt.UncertainSince)})
			}
			mt.Started = true
		case "E":
			mt.LastOK = now
			mt.Started = false
			if t != nil {
				mt.SnapDesc, mt.SnapSrc = e.Desc(t), e.SrcState(t)
			}
			_, gs := e.dependents(le.Label)
			if t != nil && t.Gen != "" {
				dg := digestInput(filepath.Join(e.S.Root, t.Pkg, t.Gen))
				if dg == mt.GenDigest {
					// regenerated with identical content: neither demanded nor forbidden for
					// targets that list the file as a source
					for _, d := range gs {
						e.M.mt(d.Label()).UncertainSince = now
					}
				}
				mt.GenDigest = dg
			}
		case "F":
			mt.LastFail = now
			mt.Started = false
		}
	}
	// bodies that started but neither finished nor failed (the process died)
	for _, mt := range e.M.T {
		if mt.Started {
			mt.Started = false
			mt.LastFail = e.M.tick()
		}
	}
}

// GC loads the project (fully, or preferring the index as `dawn gc` does) and collects garbage. A collection must not
// change what later builds do, so the model is not told anything.
func (e *Engine) GC(preferIndex bool) BuildRes {
	res := Build(BuildReq{Root: e.S.Root, GC: true, PreferIndex: preferIndex, Args: e.P.Args})
	e.step("gc", fmt.Sprintf("prefer-index=%v %s%s", preferIndex, res.LoadErr, res.GCErr))
	return res
}

// Outputs returns root-relative generated files of the closure of target.
func (e *Engine) Outputs(target string) []string {
	var out []string
	for _, l := range e.Closure(target) {
		if t := e.P.Target(l); t != nil && t.Gen != "" {
			out = append(out, filepath.Join(t.Pkg, t.Gen))
		}
	}
	return out
}

// CleanBuildCompare builds target from scratch in a copy of the tree (sources and build
// files only) and compares every generated file of its closure with the incremental tree.
func (e *Engine) CleanBuildCompare(target string, scratch string) []Finding {
	os.RemoveAll(scratch)
	cs := NewSession(scratch)
	if os.Getenv("VERIF_KEEP") == "" {
		defer os.RemoveAll(scratch)
	}
	e.P.WriteAll(cs.Root)
	res := Build(BuildReq{Root: cs.Root, Target: target, Args: e.P.Args})
	if res.LoadErr != "" || res.RunErr != "" {
		return []Finding{{"clean-build-fails", target, res.LoadErr + res.RunErr}}
	}
	var out []Finding
	for _, rel := range e.Outputs(target) {
		a, errA := os.ReadFile(filepath.Join(e.S.Root, rel))
		b, errB := os.ReadFile(filepath.Join(cs.Root, rel))
		if errA != nil || errB != nil || string(a) != string(b) {
			out = append(out, Finding{"output-differs", rel, fmt.Sprintf("incremental: %q (%v)  from-scratch: %q (%v)", firstLine(a), errA, firstLine(b), errB)})
		}
	}
	return out
}

func firstLine(b []byte) string {
	s := string(b)
	if i := strings.IndexByte(s, '\n'); i >= 0 && i+1 < len(s) {
		j := strings.IndexByte(s[i+1:], '\n')
		if j >= 0 {
			return s[:i+1+j]
		}
	}
	return s
}

// Script renders the history so far (for replay files and evidence samples).
func (e *Engine) Script() []string {
	var out []string
	for _, s := range e.Steps {
		line := fmt.Sprintf("%d %s %s", s.N, s.Op, s.Desc)
		if len(s.Executed) > 0 {
			line += " executed=" + strings.Join(s.Executed, ",")
		}
		if s.RunErr != "" {
			line += " err=" + trunc(s.RunErr)
		}
		out = append(out, line)
	}
	return out
}

// Clone copies the model (the project description is not copied).
func (m *Model) Clone() *Model {
	c := &Model{Clock: m.Clock, T: map[string]*MT{}}
	for k, v := range m.T {
		x := *v
		c.T[k] = &x
	}
	return c
}

// CopyDir copies a directory tree (regular files and directories).
func CopyDir(src, dst string) error {
	return filepath.Walk(src, func(p string, info os.FileInfo, err error) error {
		if err != nil {
			return err
		}
		rel, _ := filepath.Rel(src, p)
		target := filepath.Join(dst, rel)
		if info.IsDir() {
			return os.MkdirAll(target, 0o755)
		}
		b, err := os.ReadFile(p)
		if err != nil {
			return err
		}
		return os.WriteFile(target, b, info.Mode())
	})
}

// DropAlways removes always=True from every target declaration (not part of any function environment, so no target
// becomes stale or current because of it). It returns the number of declarations changed.
func (e *Engine) DropAlways() int {
	n := 0
	touched := map[string]bool{}
	for _, t := range e.P.AllTargets() {
		if t.Always {
			t.Always = false
			touched["pkg:"+t.Pkg] = true
			n++
		}
	}
	for id := range touched {
		e.P.WriteFile(e.S.Root, id)
	}
	if n > 0 {
		e.M.tick()
		e.step("edit", fmt.Sprintf("always=True removed from %d declarations", n))
	}
	return n
}

// EditDoc changes only the docstring of one target (a docstring is not part of the function
// environment: no target may re-execute because of it, and no record may lose what it says).
func (e *Engine) EditDoc(label string) bool {
	t := e.P.Target(label)
	if t == nil {
		return false
	}
	e.M.tick()
	t.Doc = fmt.Sprintf("Doc edited at %d.", e.M.Clock)
	e.P.WriteFile(e.S.Root, "pkg:"+t.Pkg)
	e.step("edit", "docstring "+label)
	return true
}
