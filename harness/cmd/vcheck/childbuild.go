package main

import (
	"encoding/json"
	"io"
	"os"
	"strings"
	"time"

	dawn "github.com/pgavlin/dawn"
	"github.com/pgavlin/dawn/verifharness/core"
	"github.com/pgavlin/dawn/verifharness/pj"
)

func init() { registerChild("build", childBuild) }

// childBuild: reads a pj.BuildReq (JSON) on stdin, performs it with the real dawn.Load/Run,
// writes the pj.BuildRes (JSON) to stdout. Crash points are armed through VERIF_CRASH.
func childBuild(args []string) {
	raw, _ := io.ReadAll(os.Stdin)
	var req pj.BuildReq
	if err := json.Unmarshal(raw, &req); err != nil {
		core.Fatalf("child build: %v", err)
	}
	dawn.VerifPoint = pj.Point
	res := pj.Build(req)
	b, _ := json.Marshal(res)
	os.Stdout.Write(b)
}

// childBuilder returns an Engine.ChildBuild implementation on top of ctx.RunChild.
func childBuilder(c *core.Ctx, cpus int) func(req pj.BuildReq, env []string) (pj.BuildRes, bool) {
	return func(req pj.BuildReq, env []string) (pj.BuildRes, bool) {
		in, _ := json.Marshal(req)
		r := c.RunChild(core.ChildOpts{Name: "build", Args: []string{"child", "build"}, Stdin: string(in), Env: env, CPUs: cpus, Timeout: 2 * time.Minute})
		var res pj.BuildRes
		if r.Exit != 0 || r.TimedOut {
			res.Panic = r.FatalKind()
			if r.Signal != "" {
				res.Panic += " signal=" + r.Signal
			}
			if r.TimedOut {
				res.Panic += " watchdog"
			}
			if strings.Contains(r.Stderr, "starlark.(*cell).Freeze") && strings.Contains(r.Stderr, "starlark.ExecFile") {
				res.Panic += " in-interpreter-freeze-during-module-load"
			}
			res.RunErr = "child died: " + res.Panic + "\n" + lastLines(r.Stderr, 400)
			return res, false
		}
		if err := json.Unmarshal([]byte(r.Stdout), &res); err != nil {
			res.RunErr = "unreadable child result: " + err.Error()
			return res, false
		}
		return res, true
	}
}

// watchdogOnly reports whether a dead child was ended by the wall-clock watchdog without any sign of a fatal error or a
// deadlock in its dump: on a loaded machine that is no evidence about dawn, and the verdict is "inconclusive".
func watchdogOnly(res pj.BuildRes) bool {
	return strings.TrimSpace(res.Panic) == "watchdog" && !strings.Contains(res.RunErr, "all goroutines are asleep")
}
