#!/bin/bash
# tools/verify-seed.sh <worktree>  : demo passes on clean tree, fails with the patch, suite passes with the patch
export GOFLAGS=-mod=mod GOPROXY=off GOSUMDB=off GOTOOLCHAIN=local
d=$1; cd $d || exit 2
git apply -R OUT/patch.diff 2>/dev/null; git checkout -q -- . 2>/dev/null
( timeout 900 bash OUT/run_demo.sh >/tmp/w/demo-clean-$(basename $d).log 2>&1; echo "  clean demo exit=$?" )
git apply OUT/patch.diff || { echo "  PATCH DOES NOT APPLY"; exit 2; }
( timeout 1200 bash OUT/run_demo.sh >/tmp/w/demo-mut-$(basename $d).log 2>&1; echo "  mutant demo exit=$?" )
bad=$(/verif/tools/seed.sh suite $d | grep -v '^ok' | head -5)
echo "  suite with patch: ${bad:-all ok}"
git checkout -q -- .
