package main

import (
	"bytes"
	"fmt"
	"math/rand/v2"
	"os"
	"path/filepath"
	"reflect"
	"strings"
	"sync"

	"github.com/pgavlin/dawn/internal/project"
	"github.com/pgavlin/dawn/verifharness/core"
)

func init() { register("C19", "exploration", runC19) }

var fileMu [64]sync.Mutex

var c19Special = []string{
	"v1.2", "v2", "v1.2.3+build.5",
	"", "a", "name", "my-project", "a b", "a.b", "a=b", "#x", "[x]", "'", "''", "'''", "\"", "\"\"", "\"\"\"", "\\", "\\n", "\n", "\r", "\r\n", "\t",
	"\x00", "\x7f", "\x1b", " ", " ", "é", "世界", "\U0001F600", "é", "\ufeff", "true", "false", "1", "1.5", "-", "_", "a-b_c9",
	"\U000E0067", "tag\U000E0001x", "\U000F0000\U0010FFFF", "zero\u200bwidth", "\u202egnp.exe", "\U0001F3F4\U000E0067\U000E0062\U000E0065\U000E006E\U000E0067\U000E007F",
	"inf", "nan", "{}", "{a = 1}", "a, b", "x = {path = \"p\", version = \"v1.0.0\"}", " lead", "trail ", " ", "A", "ключ", "0x10", "1979-05-27",
}

func c19String(r *rand.Rand) string {
	switch r.IntN(4) {
	case 0:
		return c19Special[r.IntN(len(c19Special))]
	case 1:
		return c19Special[r.IntN(len(c19Special))] + c19Special[r.IntN(len(c19Special))]
	default:
		alpha := []string{"a", "b", "Z", "0", "-", "_", ".", " ", "\"", "'", "\\", "\n", "\t", "=", "#", "[", "]", "é", "世", "\U0001F600", "\x00", "\x01", "\x7f", "{", "}", ",",
			// runes that do not render: zero-width and bidi controls, BOM, no-break space, tag characters, private-use planes, the last code point
			"\u200b", "\u202e", "\ufeff", "\u00a0", "\U000E0001", "\U000E0067", "\U000F0000", "\U0010FFFF", "\uE000", "\u2028", "\u0085", "\r", "\x1f", "\x08", "\x0c"}
		var b strings.Builder
		for n := r.IntN(10); n > 0; n-- {
			b.WriteString(alpha[r.IntN(len(alpha))])
		}
		return b.String()
	}
}

func c19Version(r *rand.Rand) string {
	v := fmt.Sprintf("v%d.%d.%d", r.IntN(4), r.IntN(12), r.IntN(30))
	switch r.IntN(6) {
	case 0:
		v += "-rc." + fmt.Sprint(r.IntN(5))
	case 1:
		v += "-0.20240102030405-abcdef123456"
	case 2:
		v += "-alpha"
	}
	return v
}

func c19Path(r *rand.Rand) string {
	hosts := []string{"github.com/org/repo", "example.com/x", "a", "github.com/org/repo/sub/dir", "host.io/p-q_r", "git.example.org/~user/proj"}
	p := hosts[r.IntN(len(hosts))]
	switch r.IntN(4) {
	case 0:
		p += fmt.Sprintf("@v%d", 2+r.IntN(4))
	case 1:
		// every width of major version: one, two and three digits, around the powers of ten
		majors := []int{2, 9, 10, 11, 19, 20, 21, 99, 100, 101, 123, 199, 200, 1000}
		p += fmt.Sprintf("@v%d", majors[r.IntN(len(majors))])
	}
	return p
}

func normCfg(c *project.Config) project.Config {
	out := *c
	if len(out.Ignore) == 0 {
		out.Ignore = nil
	}
	if len(out.Requirements) == 0 {
		out.Requirements = nil
	}
	return out
}

func runC19(c *core.Ctx) {
	c.SetRule("configs with PRNG-generated names, ignore entries and requirement names (ASCII, quotes, backslashes, control characters, Unicode, TOML-significant strings, " +
		"the empty string), canonical semver versions, clean paths with and without @vN; every special string is also used alone in every position; " +
		"non-trivial = has a requirement or ignore entry or a name needing quoting; distinct = distinct written bytes")
	c.Assume("strings are valid UTF-8 (TOML cannot represent other byte strings)")
	dir := filepath.Join(c.Scratch, "c19")
	os.MkdirAll(dir, 0o755)

	check := func(id, shape string, cfg *project.Config) {
		file := filepath.Join(dir, fmt.Sprintf("dawn-%x.toml", hashStr(id)%64))
		fileMu[hashStr(id)%64].Lock()
		defer fileMu[hashStr(id)%64].Unlock()
		if !c.Want(id) {
			return
		}
		c.Count("shape:"+shape, 1)
		wit := func(extra map[string]any) map[string]any {
			extra["config"] = fmt.Sprintf("%+q", *cfg)
			return extra
		}
		if err := project.WriteConfigFile(file, cfg); err != nil {
			c.Eval("")
			c.Violation(id, "", "write-error", wit(map[string]any{"error": err.Error()}))
			return
		}
		b1, _ := os.ReadFile(file)
		key := ""
		if len(cfg.Requirements) > 0 || len(cfg.Ignore) > 0 || strings.ContainsFunc(cfg.Name, func(r rune) bool { return r < 'A' || r > 'z' }) {
			key = fmt.Sprintf("%x", hashBytes(b1))
		}
		c.Eval(key)
		got, err := project.LoadConfigFile(file)
		if err != nil {
			c.Violation(id, "", "written-file-does-not-load", wit(map[string]any{"file": string(b1), "error": err.Error()}))
			return
		}
		if !reflect.DeepEqual(normCfg(cfg), normCfg(got)) {
			c.Violation(id, "", "loaded-config-differs", wit(map[string]any{"file": string(b1), "loaded": fmt.Sprintf("%+q", *got)}))
			return
		}
		if err := project.WriteConfigFile(file, got); err != nil {
			c.Violation(id, "", "rewrite-error", wit(map[string]any{"error": err.Error()}))
			return
		}
		b2, _ := os.ReadFile(file)
		if !bytes.Equal(b1, b2) {
			c.Violation(id, "", "rewrite-not-byte-identical", wit(map[string]any{"first": string(b1), "second": string(b2)}))
			return
		}
		c.SampleKey(shape, map[string]any{"case": id, "file": string(b1)})
	}

	// 1. every special string alone in every position.
	for i, s := range c19Special {
		check(fmt.Sprintf("name/%d", i), "special-name", &project.Config{Name: s})
		check(fmt.Sprintf("ignore/%d", i), "special-ignore", &project.Config{Name: "p", Ignore: []string{s, "x"}})
		check(fmt.Sprintf("reqname/%d", i), "special-requirement-name", &project.Config{Name: "p", Requirements: map[string]project.RequirementConfig{
			s: {Path: "github.com/org/repo", Version: "v1.2.3"}}})
		check(fmt.Sprintf("reqname2/%d", i), "special-requirement-name", &project.Config{Requirements: map[string]project.RequirementConfig{
			s: {Path: "github.com/org/repo@v2", Version: "v2.0.0"}, "other": {Path: "a", Version: "v0.0.1"}}})
		check(fmt.Sprintf("version/%d", i), "special-project-version", &project.Config{Name: "p", Version: s})
	}
	// 2. random configs.
	n := c.N(20000, 2000000)
	core.Parallel(n, c.N(1, 14), func(i int) {
		r := c.Rand(fmt.Sprintf("random/%d", i))
		cfg := &project.Config{}
		if r.IntN(5) != 0 {
			cfg.Name = c19String(r)
		}
		switch r.IntN(6) {
		case 0, 1:
			cfg.Version = c19Version(r)
		case 2:
			// the project's own version is free-form: short forms and build metadata must survive
			cfg.Version = []string{"v1.2", "v2", "v1.2.3+build.5", "v1.0.0-rc.1+meta", "1.2.3", "v01.2.3", "V1.2.3", "v1.2.3 ", "latest"}[r.IntN(9)]
		}
		for k := r.IntN(4); k > 0 && r.IntN(2) == 0; k-- {
			cfg.Ignore = append(cfg.Ignore, c19String(r))
		}
		if k := r.IntN(5); k > 0 {
			cfg.Requirements = map[string]project.RequirementConfig{}
			for ; k > 0; k-- {
				rp, rv := c19Path(r), c19Version(r)
				if i := strings.LastIndex(rp, "@v"); i >= 0 && r.IntN(2) == 0 {
					// a version on the major line the path names
					rv = rp[i+1:] + rv[strings.Index(rv, "."):]
				}
				cfg.Requirements[c19String(r)] = project.RequirementConfig{Path: rp, Version: rv}
			}
		}
		check(fmt.Sprintf("random/%d", i), "random", cfg)
	})
	os.RemoveAll(dir)
}
