package core

import (
	"bufio"
	"encoding/json"
	"fmt"
	"os"
	"runtime"
	"strconv"
	"strings"
	"sync"
	"sync/atomic"
	"time"
)

// CaseResult is what a journaled child reports for one case; the parent merges it.
type CaseResult struct {
	Evals        int64            `json:"evals"`
	Keys         []string         `json:"keys,omitempty"`
	Counts       map[string]int64 `json:"counts,omitempty"`
	Maxes        map[string]int64 `json:"maxes,omitempty"`
	Viol         []CaseViol       `json:"viol,omitempty"`
	Samples      []CaseSample     `json:"samples,omitempty"`
	Inconclusive []string         `json:"inconclusive,omitempty"`
}

type CaseViol struct {
	Case, Scenario, Symptom string
	Witness                 json.RawMessage
}

type CaseSample struct {
	Key   string
	Value json.RawMessage
}

// BeginCollect switches the context to collecting mode (child side).
func (c *Ctx) BeginCollect() {
	c.mu.Lock()
	c.collect = &CaseResult{Counts: map[string]int64{}, Maxes: map[string]int64{}}
	c.mu.Unlock()
}

func (c *Ctx) EndCollect() *CaseResult {
	c.mu.Lock()
	defer c.mu.Unlock()
	r := c.collect
	c.collect = nil
	return r
}

// Merge folds a child's case result into this (parent) context.
func (c *Ctx) Merge(r *CaseResult) {
	c.EvalN(r.Evals)
	for _, k := range r.Keys {
		c.Distinct(k)
	}
	for k, v := range r.Counts {
		c.Count(k, v)
	}
	for k, v := range r.Maxes {
		c.Max(k, v)
	}
	for _, s := range r.Samples {
		c.SampleKey(s.Key, s.Value)
	}
	for _, s := range r.Inconclusive {
		c.Inconclusive(s)
	}
	for _, v := range r.Viol {
		c.Violation(v.Case, v.Scenario, v.Symptom, v.Witness)
	}
}

type CaseFunc func(c *Ctx, caseID string)

// ChildCases is the child side of RunSharded: case ids arrive on stdin, one per line.
func ChildCases(c *Ctx, f CaseFunc) {
	j := OpenJournal()
	// Optional per-case watchdog (bounded-progress restatement of termination): if one case runs
	// longer than VERIF_CASE_TIMEOUT seconds, dump every goroutine and exit with status 97.
	var caseNo atomic.Int64
	if secs, _ := strconv.Atoi(os.Getenv("VERIF_CASE_TIMEOUT")); secs > 0 {
		go func() {
			last, since := int64(-1), time.Now()
			for {
				time.Sleep(500 * time.Millisecond)
				if n := caseNo.Load(); n != last {
					last, since = n, time.Now()
				} else if time.Since(since) > time.Duration(secs)*time.Second {
					buf := make([]byte, 1<<20)
					n := runtime.Stack(buf, true)
					fmt.Fprintf(os.Stderr, "CASE-WATCHDOG: case exceeded %d s\n%s\n", secs, buf[:n])
					os.Exit(97)
				}
			}
		}()
	}
	sc := bufio.NewScanner(os.Stdin)
	sc.Buffer(make([]byte, 1<<20), 1<<26)
	for sc.Scan() {
		id := strings.TrimSpace(sc.Text())
		if id == "" {
			continue
		}
		caseNo.Add(1)
		j.Begin(id, id)
		c.BeginCollect()
		f(c, id)
		j.End(id, c.EndCollect())
	}
}

type ShardOpts struct {
	Mode        string // child mode name (registered in the binary)
	Bin         string // binary to run ("" = self)
	Workers     int
	CPUs        int // taskset for each worker (0 = none); worker w is pinned to CPUs cores starting at w*CPUs
	NCores      int // number of cores available for pinning (default 16)
	Env         []string
	Timeout     time.Duration // wall-clock watchdog per child (inconclusive when it fires without evidence)
	PerCaseTime time.Duration // added to Timeout for every case still to run in the child
	// Died is called when a child died while running a case. It decides whether that is a
	// violation. If nil, every death is reported as a violation "process-died:<kind>".
	Died func(caseID string, r *ChildResult)
	// MaxDeaths bounds the number of child deaths tolerated before the remaining cases are
	// skipped (a broken tree would otherwise cost one watchdog period per case). Default 12.
	MaxDeaths int
	// PerCase, if set, sees every finished case result before it is merged.
	PerCase func(caseID string, r *CaseResult)
}

// RunSharded distributes case ids over worker children. A child that dies names its killing
// case through the journal; the remaining cases of its shard continue in a fresh child.
func (c *Ctx) RunSharded(cases []string, o ShardOpts) {
	if o.Workers <= 0 {
		o.Workers = 8
	}
	if o.Workers > len(cases) {
		o.Workers = len(cases)
	}
	if o.Workers == 0 {
		return
	}
	shards := make([][]string, o.Workers)
	for i, id := range cases {
		shards[i%o.Workers] = append(shards[i%o.Workers], id)
	}
	if o.MaxDeaths == 0 {
		o.MaxDeaths = 12
	}
	var deaths, skipped atomic.Int64
	defer func() {
		if n := skipped.Load(); n > 0 {
			c.Count("cases_skipped_after_repeated_process_deaths", n)
		}
	}()
	var wg sync.WaitGroup
	for w, sh := range shards {
		wg.Add(1)
		cpulist := ""
		if o.CPUs > 0 {
			nc := o.NCores
			if nc == 0 {
				nc = 16
			}
			var ids []string
			for k := 0; k < o.CPUs; k++ {
				ids = append(ids, fmt.Sprint((w*o.CPUs+k)%nc))
			}
			cpulist = strings.Join(ids, ",")
		}
		go func(todo []string) {
			defer wg.Done()
			for len(todo) > 0 {
				if deaths.Load() >= int64(o.MaxDeaths) {
					skipped.Add(int64(len(todo)))
					return
				}
				r := c.RunChild(ChildOpts{
					Bin: o.Bin, Name: o.Mode,
					Args:  []string{"child", "cases", c.ID, c.Tier, fmt.Sprint(c.Seed), o.Mode},
					Stdin: strings.Join(todo, "\n") + "\n", Env: o.Env, CPUList: cpulist, Timeout: o.Timeout + time.Duration(len(todo))*o.PerCaseTime,
				})
				done := 0
				for _, e := range r.Journal {
					if e.End == nil {
						break
					}
					var cr CaseResult
					if err := json.Unmarshal(e.End, &cr); err == nil {
						if o.PerCase != nil {
							o.PerCase(e.ID, &cr)
						}
						c.Merge(&cr)
					}
					done++
				}
				if done >= len(todo) {
					// every case finished; a non-zero status here is the race detector's exit code
					// (its reports are read from the log files)
					return
				}
				// the child died (or was killed by the watchdog) inside todo[done]
				deaths.Add(1)
				dead := "?"
				if done < len(todo) {
					dead = todo[done]
				}
				switch {
				case o.Died != nil:
					o.Died(dead, r)
				case r.TimedOut && r.FatalKind() == "":
					c.Inconclusive(fmt.Sprintf("case %s: wall-clock watchdog fired (no deadlock/fatal evidence)", dead))
				default:
					c.Violation(dead, "", "process-died:"+r.FatalKind(), map[string]any{"exit": r.Exit, "signal": r.Signal, "stderr": headLines(r.Stderr, 40)})
				}
				if done+1 > len(todo) {
					return
				}
				todo = todo[done+1:]
			}
		}(sh)
	}
	wg.Wait()
}

func headLines(s string, n int) string {
	l := strings.Split(s, "\n")
	if len(l) > n {
		l = l[:n]
	}
	return strings.Join(l, "\n")
}
