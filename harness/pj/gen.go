package pj

import (
	"fmt"
	"math/rand/v2"
	"os"
	"path/filepath"
	"sort"
	"strings"
)

// ---- project description -------------------------------------------------------------

// An Atom is something a target function can reference: a constant, a helper function, a
// closure, a flag. Atoms live in files (package build files or helper modules).
type Atom struct {
	Name    string
	File    string   // "pkg:<path>" or "lib:<name>"
	Kind    string   // const | func | factory | closure | flag
	PrevLit string   // the literal before the last atom-lit edit ("" = never edited)
	Lit     string   // const: the literal; func/factory: a literal used inside the body; closure: the captured literal
	Def     string   // func: literal default parameter value ("" = none)
	Refs    []string // names of atoms (visible in the same file) this atom's code references
	Pad     int      // number of comment lines rendered before it (comment edits)
}

type Tgt struct {
	Pkg     string   // "", "p1", "p1/sub"
	Name    string   // identifier
	Deps    []string // labels of function targets (absolute)
	Sources []string // package-relative paths of source files / directories
	GenSrc  []string // labels of targets whose generated file this target lists as a source
	Gen     string   // package-relative path of the generated file ("" = none)
	Uses    []string // expression snippets placed in the values list
	UseRefs []string // atom names referenced by Uses
	Extra   int      // a literal in the values list (body code edit)
	Doc     string
	Always  bool
	Default bool
	Emit    bool // body also writes text through stdout
	Pad     int
	// Spell gives, per dependency label, the (legal, non-canonical) spelling written in the build
	// file, e.g. "//p2/:t1" or "//p1//sub:t3" for "//p2:t1" / "//p1/sub:t3".
	Spell map[string]string
	// DupDeps lists dependencies that the build file names a second time, in front of the list (deps=[d, ..., d, ...])
	DupDeps []string
}

// respell returns a legal non-canonical spelling of an absolute target label.
func respell(label string, k int) string {
	i := strings.LastIndex(label, ":")
	pkg, name := label[:i], label[i:]
	switch k % 3 {
	case 0:
		return pkg + "/" + name // trailing separator
	case 1:
		if j := strings.Index(pkg[2:], "/"); j >= 0 {
			return pkg[:2+j] + "//" + pkg[2+j+1:] + name // repeated separator inside
		}
		return pkg + "//" + name
	default:
		return "//" + "/" + pkg[2:] + name // repeated separator after the root
	}
}

func (t *Tgt) Label() string { return "//" + t.Pkg + ":" + t.Name }

type File struct {
	ID    string // "pkg:<path>" / "lib:<name>"
	Loads map[string][]string
	Atoms []*Atom
	Tgts  []*Tgt
	Tail  int // trailing comment/blank lines
}

type Proj struct {
	Files   map[string]*File  // by ID
	Order   []string          // file IDs in creation order
	Srcs    map[string]string // root-relative path -> content (regular source files)
	Missing map[string]bool   // declared sources whose file is currently deleted
	Args    []string
	FlagVal string
	Pause   bool // module top-level code calls v.pause
	// Ignore is the project's ignore list (dawn.toml): packages are not loaded from ignored paths, but targets of other
	// packages may still list files and directories below them as sources
	Ignore []string
}

func (p *Proj) file(id string) *File { return p.Files[id] }

func (p *Proj) AllTargets() []*Tgt {
	var out []*Tgt
	for _, id := range p.Order {
		out = append(out, p.Files[id].Tgts...)
	}
	return out
}

func (p *Proj) Target(label string) *Tgt {
	for _, t := range p.AllTargets() {
		if t.Label() == label {
			return t
		}
	}
	return nil
}

func (p *Proj) atom(file, name string) *Atom {
	f := p.Files[file]
	if f == nil {
		return nil
	}
	for _, a := range f.Atoms {
		if a.Name == name {
			return a
		}
	}
	for lib, names := range f.Loads {
		for _, n := range names {
			if n == name {
				return p.atom("lib:"+lib, name)
			}
		}
	}
	return nil
}

// RefClosure returns the ids ("file|name") of all atoms the target's function references,
// transitively.
func (p *Proj) RefClosure(t *Tgt) map[string]bool {
	out := map[string]bool{}
	var visit func(file, name string)
	visit = func(file, name string) {
		a := p.atom(file, name)
		if a == nil {
			return
		}
		id := a.File + "|" + a.Name
		if out[id] {
			return
		}
		out[id] = true
		for _, r := range a.Refs {
			visit(a.File, r)
		}
	}
	for _, r := range t.UseRefs {
		visit("pkg:"+t.Pkg, r)
	}
	return out
}

// FilesOf returns the ids of the files whose text can influence the target's function
// environment: its own build file and the helper modules of every atom it references.
func (p *Proj) FilesOf(t *Tgt) map[string]bool {
	out := map[string]bool{"pkg:" + t.Pkg: true}
	for id := range p.RefClosure(t) {
		out[id[:strings.Index(id, "|")]] = true
	}
	return out
}

// ---- rendering --------------------------------------------------------------------------

func pad(n int, tag string) string {
	var b strings.Builder
	for i := 0; i < n; i++ {
		if i%2 == 0 {
			fmt.Fprintf(&b, "# %s comment %d\n", tag, i)
		} else {
			b.WriteString("\n")
		}
	}
	return b.String()
}

func (p *Proj) renderAtom(b *strings.Builder, a *Atom) {
	b.WriteString(pad(a.Pad, a.Name))
	switch a.Kind {
	case "const":
		fmt.Fprintf(b, "%s = %s\n", a.Name, a.Lit)
	case "func":
		refs := strings.Join(a.Refs, ", ")
		if refs != "" {
			refs = ", " + refs
		}
		if a.Def != "" {
			fmt.Fprintf(b, "def %s(x, d=%s):\n    return [x, d, %s%s]\n", a.Name, a.Def, a.Lit, refs)
		} else {
			fmt.Fprintf(b, "def %s(x):\n    return [x, %s%s]\n", a.Name, a.Lit, refs)
		}
	case "mfunc": // one half of a pair of mutually recursive helpers
		fmt.Fprintf(b, "def %s(x):\n    return [%s] if x <= 0 else %s(x - 1)\n", a.Name, a.Lit, a.Refs[0])
	case "rfunc": // a recursive helper (one of the globals of its own code)
		fmt.Fprintf(b, "def %s(x):\n    return [%s] if x <= 0 else %s(x - 1)\n", a.Name, a.Lit, a.Name)
	case "factory":
		refs := strings.Join(a.Refs, ", ")
		if refs != "" {
			refs = ", " + refs
		}
		// every closure of one factory shares the compiled body of inner; they differ in the captured n and the default d
		fmt.Fprintf(b, "def %s(n, k=0):\n    def inner(d=k):\n        return [n, d, %s%s]\n    return inner\n", a.Name, a.Lit, refs)
	case "closure":
		if a.Def != "" {
			fmt.Fprintf(b, "%s = %s(%s, %s)\n", a.Name, a.Refs[0], a.Lit, a.Def)
		} else {
			fmt.Fprintf(b, "%s = %s(%s)\n", a.Name, a.Refs[0], a.Lit)
		}
	case "flag":
		fmt.Fprintf(b, "%s = parse_flag(%q, default=\"dflt\")\n", a.Name, strings.ToLower(a.Name))
	}
}

func relTo(pkg, rootRel string) string {
	r, err := filepath.Rel("/"+pkg, "/"+rootRel)
	if err != nil {
		return rootRel
	}
	return r
}

func quoteList(xs []string) string {
	q := make([]string, len(xs))
	for i, x := range xs {
		q[i] = fmt.Sprintf("%q", x)
	}
	return "[" + strings.Join(q, ", ") + "]"
}

// Inputs returns the package-relative paths the body reads: declared sources, generated
// sources and the outputs of direct dependencies.
func (p *Proj) Inputs(t *Tgt) []string {
	in := append([]string{}, t.Sources...)
	for _, g := range t.GenSrc {
		if gt := p.Target(g); gt != nil && gt.Gen != "" {
			in = append(in, relTo(t.Pkg, filepath.Join(gt.Pkg, gt.Gen)))
		}
	}
	for _, d := range t.Deps {
		if dt := p.Target(d); dt != nil && dt.Gen != "" {
			in = append(in, relTo(t.Pkg, filepath.Join(dt.Pkg, dt.Gen)))
		}
	}
	return in
}

func (p *Proj) RenderFile(id string) string {
	f := p.Files[id]
	var b strings.Builder
	if strings.HasPrefix(id, "lib:") {
		fmt.Fprintf(&b, "# helper module %s\n", id[4:])
		if p.Pause {
			fmt.Fprintf(&b, "v.pause(%q)\n", id)
		}
	} else {
		fmt.Fprintf(&b, "# package //%s\n", id[4:])
	}
	libs := make([]string, 0, len(f.Loads))
	for l := range f.Loads {
		libs = append(libs, l)
	}
	sort.Strings(libs)
	for _, l := range libs {
		names := f.Loads[l]
		q := make([]string, len(names))
		for i, n := range names {
			q[i] = fmt.Sprintf("%q", n)
		}
		fmt.Fprintf(&b, "load(\"//lib:%s.dawn\", %s)\n", l, strings.Join(q, ", "))
		if p.Pause {
			fmt.Fprintf(&b, "v.pause(%q)\n", id+"/after-load-"+l)
		}
	}
	for _, a := range f.Atoms {
		p.renderAtom(&b, a)
	}
	for _, t := range f.Tgts {
		b.WriteString(pad(t.Pad, t.Name))
		var kw []string
		deps := append([]string{}, t.Deps...)
		for i, d := range deps {
			if sp, ok := t.Spell[d]; ok {
				deps[i] = sp
			}
		}
		// a dependency named twice: deps=[d, <the others>, d', <one more>] - d' may be another spelling of d
		for _, d := range t.DupDeps {
			if contains(t.Deps, d) && len(deps) > 0 {
				mid := (len(deps) + 1) / 2
				again := d
				if len(t.Name)%2 == 0 {
					again = respell(d, len(d))
				}
				deps = append(deps[:mid:mid], append([]string{again}, deps[mid:]...)...)
			}
		}
		if len(deps) > 0 {
			kw = append(kw, "deps="+quoteList(deps))
		}
		srcs := append([]string{}, t.Sources...)
		for _, g := range t.GenSrc {
			if gt := p.Target(g); gt != nil && gt.Gen != "" {
				srcs = append(srcs, relTo(t.Pkg, filepath.Join(gt.Pkg, gt.Gen)))
			}
		}
		if len(srcs) > 0 {
			kw = append(kw, "sources="+quoteList(srcs))
		}
		if t.Gen != "" {
			kw = append(kw, "generates="+quoteList([]string{t.Gen}))
		}
		if t.Always {
			kw = append(kw, "always=True")
		}
		if t.Default {
			kw = append(kw, "default=True")
		}
		fmt.Fprintf(&b, "@target(%s)\ndef %s(self):\n", strings.Join(kw, ", "), t.Name)
		if t.Doc != "" {
			fmt.Fprintf(&b, "    \"\"\"%s\"\"\"\n", t.Doc)
		}
		vals := append([]string{}, t.Uses...)
		vals = append(vals, fmt.Sprint(t.Extra))
		if t.Emit {
			fmt.Fprintf(&b, "    v.emit(%q)\n", t.Label())
		}
		fmt.Fprintf(&b, "    v.body(%q, [%s], %s, %q)\n", t.Label(), strings.Join(vals, ", "), quoteList(p.Inputs(t)), t.Gen)
	}
	b.WriteString(pad(f.Tail, "tail"))
	return b.String()
}

func (p *Proj) filePath(id string) string {
	if strings.HasPrefix(id, "lib:") {
		return filepath.Join("lib", id[4:]+".dawn")
	}
	return filepath.Join(id[4:], "BUILD.dawn")
}

// WriteFile renders one file into the tree.
func (p *Proj) WriteFile(root, id string) {
	path := filepath.Join(root, p.filePath(id))
	os.MkdirAll(filepath.Dir(path), 0o755)
	os.WriteFile(path, []byte(p.RenderFile(id)), 0o644)
}

// WriteAll writes the whole tree (build files, helper modules, sources, dawn.toml).
func (p *Proj) WriteAll(root string) {
	os.MkdirAll(root, 0o755)
	toml := "name = \"gen\"\n"
	if len(p.Ignore) > 0 {
		toml += "ignore = " + quoteList(p.Ignore) + "\n"
	}
	os.WriteFile(filepath.Join(root, "dawn.toml"), []byte(toml), 0o644)
	for _, id := range p.Order {
		p.WriteFile(root, id)
	}
	if _, ok := p.Files["pkg:lib"]; !ok && p.hasLibs() {
		// the lib directory needs no BUILD.dawn: helper modules are loaded by label.
	}
	for rel, content := range p.Srcs {
		if p.Missing[rel] {
			continue
		}
		path := filepath.Join(root, rel)
		os.MkdirAll(filepath.Dir(path), 0o755)
		os.WriteFile(path, []byte(content), 0o644)
	}
}

func (p *Proj) hasLibs() bool {
	for _, id := range p.Order {
		if strings.HasPrefix(id, "lib:") {
			return true
		}
	}
	return false
}

// ---- generation -------------------------------------------------------------------------

type Gen struct {
	R *rand.Rand
	// NoExotic keeps constructs of known findings out of the random generator.
	n int
}

var intPool = []int{0, 1, 7, 42, 255, 256, 257, 300, 511, 4660, 32767, 65535, 65536, 65580, 70000, 1 << 20, 19660800, 1<<31 - 1, 1 << 31, 1 << 40, -1, -256, -65536}

// Literal returns a literal different from old. With probability 1/3 an integer in
// 256..65535 is replaced by the value it collides with under a wrong 2-byte decode.
func (g *Gen) Literal(old string) string {
	for {
		var s string
		switch g.R.IntN(10) {
		case 0, 1, 2, 3:
			s = fmt.Sprint(intPool[g.R.IntN(len(intPool))])
		case 4:
			s = fmt.Sprint(256 + g.R.IntN(65536-256))
		case 5:
			var x int
			if _, err := fmt.Sscanf(old, "%d", &x); err == nil && x >= 256 && x < 65536 && !strings.ContainsAny(old, ".\"[{") {
				s = fmt.Sprint((x & 0xff) | ((x >> 8) << 16))
			} else {
				s = fmt.Sprintf("%q", fmt.Sprintf("s%d", g.R.IntN(1000)))
			}
		case 6:
			s = fmt.Sprintf("%q", []string{"", "a", "str", "héllo", "line\nbreak", strings.Repeat("x", 300)}[g.R.IntN(6)])
		case 7:
			s = fmt.Sprintf("%d.5", g.R.IntN(100))
		case 8:
			s = fmt.Sprintf("[%d, %q, (%d, None)]", g.R.IntN(70000), "e", g.R.IntN(5))
		default:
			s = fmt.Sprintf("{\"k\": [%d, %d], \"z\": %q}", g.R.IntN(300), g.R.IntN(70000), "v")
		}
		if s != old {
			return s
		}
	}
}

func (g *Gen) bigLiteral() string {
	return fmt.Sprintf("list(range(%d))", []int{999, 1000, 1001, 1500, 2001, 3001}[g.R.IntN(6)])
}

func (g *Gen) Project() *Proj {
	p := &Proj{Files: map[string]*File{}, Srcs: map[string]string{}}
	r := g.R
	addFile := func(id string) *File {
		f := &File{ID: id, Loads: map[string][]string{}}
		p.Files[id] = f
		p.Order = append(p.Order, id)
		return f
	}
	// helper modules
	nlibs := r.IntN(3)
	for i := 0; i < nlibs; i++ {
		name := fmt.Sprintf("h%d", i)
		f := addFile("lib:" + name)
		up := strings.ToUpper(name)
		f.Atoms = append(f.Atoms,
			&Atom{Name: up + "_K", File: f.ID, Kind: "const", Lit: g.Literal("")},
			&Atom{Name: up + "_D", File: f.ID, Kind: "const", Lit: g.Literal("")},
			&Atom{Name: name + "_f", File: f.ID, Kind: "func", Lit: g.Literal(""), Refs: []string{up + "_K"}},
			&Atom{Name: name + "_mk", File: f.ID, Kind: "factory", Lit: g.Literal(""), Refs: []string{up + "_D"}},
		)
		if r.IntN(3) == 0 {
			f.Atoms = append(f.Atoms, &Atom{Name: up + "_BIG", File: f.ID, Kind: "const", Lit: g.bigLiteral()})
		}
		if i > 0 && r.IntN(2) == 0 {
			// a helper module that loads another helper module
			prev := fmt.Sprintf("h%d", i-1)
			f.Loads[prev] = []string{prev + "_f"}
			f.Atoms = append(f.Atoms, &Atom{Name: name + "_g", File: f.ID, Kind: "func", Lit: g.Literal(""), Refs: []string{prev + "_f"}})
		}
	}
	// packages
	pkgs := []string{""}
	for _, cand := range []string{"p1", "p2", "p1/sub", "p3"} {
		if r.IntN(2) == 0 {
			pkgs = append(pkgs, cand)
		}
	}
	// now and then a package ten directories deep: its labels are ~100 characters long, escaped record names ~130
	deep := ""
	if r.IntN(5) == 0 {
		deep = "services/payments/src/main/resources/com/example/payments/adapters/postgresql/migrations/versioned"
		pkgs = append(pkgs, deep)
	}
	for _, pk := range pkgs {
		f := addFile("pkg:" + pk)
		tag := strings.ToUpper(strings.ReplaceAll(pk, "/", "_"))
		if pk == deep && deep != "" {
			tag = "DEEP"
		}
		if tag == "" {
			tag = "R"
		}
		for l := 0; l < nlibs; l++ {
			if r.IntN(2) == 0 {
				name := fmt.Sprintf("h%d", l)
				up := strings.ToUpper(name)
				names := []string{name + "_f", up + "_K", name + "_mk"}
				if p.atom("lib:"+name, up+"_BIG") != nil && r.IntN(2) == 0 {
					names = append(names, up+"_BIG")
				}
				if p.atom("lib:"+name, name+"_g") != nil {
					names = append(names, name+"_g")
				}
				f.Loads[name] = names
			}
		}
		nconst := 1 + r.IntN(3)
		for i := 0; i < nconst; i++ {
			f.Atoms = append(f.Atoms, &Atom{Name: fmt.Sprintf("K%s%d", tag, i), File: f.ID, Kind: "const", Lit: g.Literal("")})
		}
		if r.IntN(4) == 0 {
			f.Atoms = append(f.Atoms, &Atom{Name: "BIG" + tag, File: f.ID, Kind: "const", Lit: g.bigLiteral()})
		}
		fn := &Atom{Name: "helper" + tag, File: f.ID, Kind: "func", Lit: g.Literal(""), Refs: []string{f.Atoms[0].Name}}
		if r.IntN(2) == 0 {
			fn.Def = fmt.Sprint(r.IntN(500))
		}
		f.Atoms = append(f.Atoms, fn)
		if r.IntN(3) == 0 {
			f.Atoms = append(f.Atoms, &Atom{Name: "rec" + tag, File: f.ID, Kind: "rfunc", Lit: g.Literal("")})
		}
		if r.IntN(3) == 0 {
			// mutually recursive helpers: different targets enter the cycle at different functions
			f.Atoms = append(f.Atoms,
				&Atom{Name: "ping" + tag, File: f.ID, Kind: "mfunc", Lit: g.Literal(""), Refs: []string{"pong" + tag}},
				&Atom{Name: "pong" + tag, File: f.ID, Kind: "mfunc", Lit: g.Literal(""), Refs: []string{"ping" + tag}})
		}
		for lib := range f.Loads {
			if r.IntN(2) == 0 {
				f.Atoms = append(f.Atoms, &Atom{Name: "cl" + tag + lib, File: f.ID, Kind: "closure", Lit: fmt.Sprint(r.IntN(70000)), Refs: []string{lib + "_mk"}})
				// sibling closures of the same factory (same code, different captured value / default value)
				for k := r.IntN(3); k > 0; k-- {
					sib := &Atom{Name: fmt.Sprintf("cl%d%s%s", k, tag, lib), File: f.ID, Kind: "closure", Lit: fmt.Sprint(r.IntN(70000)), Refs: []string{lib + "_mk"}}
					if r.IntN(2) == 0 {
						sib.Def = fmt.Sprint(r.IntN(500))
					}
					f.Atoms = append(f.Atoms, sib)
				}
			}
		}
		if pk == "" && r.IntN(3) == 0 {
			f.Atoms = append(f.Atoms, &Atom{Name: "FLAGMODE", File: f.ID, Kind: "flag"})
		}
		// sources
		nsrc := 1 + r.IntN(3)
		for i := 0; i < nsrc; i++ {
			p.Srcs[filepath.Join(pk, fmt.Sprintf("s%d.txt", i))] = fmt.Sprintf("source %s %d v0\n", pk, i)
		}
		if r.IntN(2) == 0 {
			for _, n := range []string{"a.txt", "b.txt", "sub/c.txt"} {
				p.Srcs[filepath.Join(pk, "dir0", n)] = "dir file " + n + " of " + pk + "\n"
			}
		}
	}
	// a vendored tree on the ignore list whose files some root-package targets use as sources
	vendored := r.IntN(3) == 0
	if vendored {
		p.Ignore = []string{"vendor", "vendor/**"}
		p.Srcs["vendor/lib.txt"] = "vendored library v0\n"
		p.Srcs["vendor/deep/x.txt"] = "vendored deep file\n"
		// a package below the ignored path: it must not be loaded (it would not even parse)
		p.Srcs["vendor/BUILD.dawn"] = "this is not a build file (\n"
	}
	// targets, in an order that keeps the dependency graph acyclic
	ntg := 3 + r.IntN(8)
	var all []*Tgt
	for i := 0; i < ntg; i++ {
		pk := pkgs[r.IntN(len(pkgs))]
		if deep != "" && i < 2 {
			pk = deep // at least two targets (and their sources) live in the deep package
		}
		f := p.Files["pkg:"+pk]
		t := &Tgt{Pkg: pk, Name: fmt.Sprintf("t%d", i), Extra: r.IntN(100)}
		if r.IntN(5) != 0 {
			t.Gen = fmt.Sprintf("out/t%d.txt", i)
		}
		if r.IntN(3) == 0 {
			t.Doc = fmt.Sprintf("Target %d.", i)
		}
		if r.IntN(12) == 0 {
			t.Always = true // declared always=True: runs in every build that reaches it, and so does what depends on it
		}
		for _, d := range all {
			switch r.IntN(6) {
			case 0, 1:
				t.Deps = append(t.Deps, d.Label())
				if r.IntN(5) == 0 {
					if t.Spell == nil {
						t.Spell = map[string]string{}
					}
					t.Spell[d.Label()] = respell(d.Label(), r.IntN(3))
				}
			case 2:
				if d.Gen != "" && len(t.GenSrc) < 2 {
					t.GenSrc = append(t.GenSrc, d.Label())
				}
			}
		}
		if len(t.Deps) > 0 && r.IntN(8) == 0 {
			// the same dependency named twice (the second time possibly in another spelling), followed by the others
			dup := t.Deps[0]
			t.DupDeps = append(t.DupDeps, dup)
		}
		for rel := range p.Srcs {
			dir := filepath.Dir(rel)
			if dir == "." {
				dir = ""
			}
			if dir == pk && r.IntN(2) == 0 {
				t.Sources = append(t.Sources, filepath.Base(rel))
			}
		}
		sort.Strings(t.Sources)
		if _, ok := p.Srcs[filepath.Join(pk, "dir0", "a.txt")]; ok && r.IntN(2) == 0 {
			t.Sources = append(t.Sources, "dir0")
		}
		if vendored && pk == "" && r.IntN(2) == 0 {
			t.Sources = append(t.Sources, []string{"vendor/lib.txt", "vendor", "vendor/deep/x.txt"}[r.IntN(3)])
		}
		// a source from another package
		if len(pkgs) > 1 && r.IntN(4) == 0 {
			other := pkgs[r.IntN(len(pkgs))]
			if _, ok := p.Srcs[filepath.Join(other, "s0.txt")]; ok && other != pk {
				t.Sources = append(t.Sources, relTo(pk, filepath.Join(other, "s0.txt")))
			}
		}
		used := map[string]bool{}
		for _, a := range f.Atoms {
			if r.IntN(2) == 0 {
				g.use(t, a)
				used[a.Name] = true
			}
		}
		// closures of one factory tend to be used together
		for _, a := range f.Atoms {
			if a.Kind != "closure" || used[a.Name] {
				continue
			}
			for _, b := range f.Atoms {
				if b.Kind == "closure" && used[b.Name] && b.Refs[0] == a.Refs[0] && r.IntN(2) == 0 {
					g.use(t, a)
					used[a.Name] = true
					break
				}
			}
		}
		for lib, names := range f.Loads {
			_ = lib
			for _, n := range names {
				if r.IntN(3) == 0 {
					if a := p.atom(f.ID, n); a != nil {
						g.use(t, a)
					}
				}
			}
		}
		f.Tgts = append(f.Tgts, t)
		all = append(all, t)
	}
	// an aggregate root target
	root := p.Files["pkg:"]
	agg := &Tgt{Pkg: "", Name: "all", Extra: 0}
	for _, t := range all {
		if r.IntN(3) != 0 {
			agg.Deps = append(agg.Deps, t.Label())
		}
	}
	if len(agg.Deps) == 0 {
		agg.Deps = []string{all[len(all)-1].Label()}
	}
	root.Tgts = append(root.Tgts, agg)
	if p.atom("pkg:", "FLAGMODE") != nil {
		p.FlagVal = "dflt"
	}
	return p
}

func (g *Gen) use(t *Tgt, a *Atom) {
	var expr string
	switch a.Kind {
	case "const", "flag":
		expr = a.Name
		if strings.HasPrefix(a.Lit, "list(range(") {
			expr = "len(" + a.Name + ")" // keep repr small; the value still enters the environment
		}
	case "func", "rfunc", "mfunc":
		expr = fmt.Sprintf("%s(%d)", a.Name, g.R.IntN(9))
	case "factory":
		expr = fmt.Sprintf("%s(%d)()", a.Name, g.R.IntN(9))
	case "closure":
		expr = a.Name + "()"
	}
	t.Uses = append(t.Uses, expr)
	t.UseRefs = append(t.UseRefs, a.Name)
}
