#!/bin/bash
# Run once after a fresh restore, offline: pre-builds the harness (plain and -race) so that the
# per-check rebuilds are incremental.
set -e
cd "$(dirname "$0")"
export GOFLAGS=-mod=mod GOPROXY=off GOSUMDB=off GOTOOLCHAIN=local
mkdir -p .bin evidence replays
(cd harness && CGO_ENABLED=0 go build -tags verif -o ../.bin/vcheck ./cmd/vcheck)
(cd harness && CGO_ENABLED=1 go build -race -tags verif -o ../.bin/vcheck-race ./cmd/vcheck)
echo setup ok
