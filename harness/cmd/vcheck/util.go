package main

import (
	"hash/fnv"
)

func hashBytes(b []byte) uint64 {
	h := fnv.New64a()
	h.Write(b)
	return h.Sum64()
}

func hashStr(s string) uint64 { return hashBytes([]byte(s)) }
