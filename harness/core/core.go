// Package core holds the machinery shared by all checks: seeding, evidence, verdicts,
// known-findings matching, replay files and child-process supervision.
package core

import (
	"encoding/json"
	"fmt"
	"hash/fnv"
	"math/rand/v2"
	"os"
	"path/filepath"
	"sort"
	"strconv"
	"strings"
	"sync"
	"time"
)

// VerifDir is the directory holding known-findings.json, evidence/ and replays/ (the directory of
// the check script; /verif unless the check runs from a snapshot).
var VerifDir = func() string {
	if d := os.Getenv("VERIF_DIR"); d != "" {
		return d
	}
	return "/verif"
}()

// Finding is one entry of /verif/known-findings.json.
type Finding struct {
	Property string `json:"property"`
	Status   string `json:"status"` // "known" | "fixed"
	Scenario string `json:"scenario"`
	Symptom  string `json:"symptom"`
	What     string `json:"what"`
	Commit   string `json:"commit,omitempty"`
}

type findingsFile struct {
	Findings []Finding `json:"findings"`
}

// Ctx is the per-run context of one check.
type Ctx struct {
	ID      string
	Tier    string
	Seed    int64
	Level   string
	Replay  string // non-empty: replay this file instead of running the workload
	Scratch string
	Self    string // path of the running binary
	RaceBin string // path of the -race build of this binary ("" if not built)

	start time.Time

	mu          sync.Mutex
	evaluations int64
	distinct    map[string]struct{}
	counters    map[string]int64
	samples     []any
	sampleCap   int
	rule        string
	exhaustive  bool
	assumptions []string
	extra       map[string]any
	violations  int
	inconcl     int
	knownHit    map[string]bool
	findings    []Finding
	nreplay     int
	replayCase  string
	sampleKeys  map[string]int
	collect     *CaseResult
}

// LoadReplay switches the context to replay mode: seed and tier come from the replay file and
// Want reports true only for the recorded case.
func (c *Ctx) LoadReplay(path string) {
	b, err := os.ReadFile(path)
	if err != nil {
		Fatalf("replay: %v", err)
	}
	var r struct {
		Tier string `json:"tier"`
		Seed int64  `json:"seed"`
		Case string `json:"case"`
	}
	if err := json.Unmarshal(b, &r); err != nil {
		Fatalf("replay: %v", err)
	}
	c.Replay, c.Seed, c.Tier, c.replayCase = path, r.Seed, r.Tier, r.Case
	fmt.Printf("REPLAY property=%s tier=%s seed=%d case=%q\n", c.ID, c.Tier, c.Seed, c.replayCase)
}

// Want reports whether the case with the given id should be executed (always, unless replaying).
func (c *Ctx) Want(caseID string) bool {
	return c.Replay == "" || c.replayCase == caseID || strings.HasPrefix(c.replayCase, caseID+"/")
}

func NewCtx(id, tier string) *Ctx {
	seed := int64(1)
	if s := os.Getenv("VERIF_SEED"); s != "" {
		if v, err := strconv.ParseInt(s, 10, 64); err == nil {
			seed = v
		}
	}
	c := &Ctx{
		ID: id, Tier: tier, Seed: seed, Level: "exploration",
		start:     time.Now(),
		distinct:  map[string]struct{}{},
		counters:  map[string]int64{},
		extra:     map[string]any{},
		knownHit:  map[string]bool{},
		sampleCap: 6,
	}
	c.Scratch = os.Getenv("VERIF_SCRATCH")
	if c.Scratch == "" {
		d, err := os.MkdirTemp("", "verif-"+id+"-")
		if err != nil {
			Fatalf("scratch: %v", err)
		}
		c.Scratch = d
	}
	c.Self, _ = os.Executable()
	c.RaceBin = os.Getenv("VERIF_RACE_BIN")
	c.loadFindings()
	return c
}

func Fatalf(format string, args ...any) {
	fmt.Fprintf(os.Stderr, "vcheck: "+format+"\n", args...)
	os.Exit(2)
}

func (c *Ctx) loadFindings() {
	b, err := os.ReadFile(filepath.Join(VerifDir, "known-findings.json"))
	if err != nil {
		return
	}
	var f findingsFile
	if err := json.Unmarshal(b, &f); err != nil {
		Fatalf("known-findings.json: %v", err)
	}
	c.findings = f.Findings
}

// Quick reports whether this is the quick tier.
func (c *Ctx) Quick() bool { return c.Tier != "thorough" }

// N picks a tier-dependent count.
func (c *Ctx) N(quick, thorough int) int {
	if c.Quick() {
		return quick
	}
	return thorough
}

// Rand returns a PRNG determined by the seed, the property and a stream name.
func (c *Ctx) Rand(stream string) *rand.Rand {
	return RandFor(c.Seed, c.ID+"/"+stream)
}

func RandFor(seed int64, stream string) *rand.Rand {
	h := fnv.New64a()
	h.Write([]byte(stream))
	return rand.New(rand.NewPCG(uint64(seed), h.Sum64()))
}

func (c *Ctx) SetRule(rule string)     { c.rule = rule }
func (c *Ctx) SetExhaustive(b bool)    { c.exhaustive = b }
func (c *Ctx) Assume(s string)         { c.mu.Lock(); c.assumptions = append(c.assumptions, s); c.mu.Unlock() }
func (c *Ctx) Extra(key string, v any) { c.mu.Lock(); c.extra[key] = v; c.mu.Unlock() }

// Eval records one evaluated case. key, if non-empty, identifies a distinct non-trivial case.
func (c *Ctx) Eval(key string) {
	c.mu.Lock()
	if c.collect != nil {
		c.collect.Evals++
		if key != "" {
			c.collect.Keys = append(c.collect.Keys, key)
		}
		c.mu.Unlock()
		return
	}
	c.evaluations++
	if key != "" {
		c.distinct[key] = struct{}{}
	}
	c.mu.Unlock()
}

func (c *Ctx) EvalN(n int64) {
	c.mu.Lock()
	if c.collect != nil {
		c.collect.Evals += n
		c.mu.Unlock()
		return
	}
	c.evaluations += n
	c.mu.Unlock()
}

func (c *Ctx) Distinct(key string) {
	c.mu.Lock()
	if c.collect != nil {
		c.collect.Keys = append(c.collect.Keys, key)
		c.mu.Unlock()
		return
	}
	c.distinct[key] = struct{}{}
	c.mu.Unlock()
}

func (c *Ctx) Count(name string, n int64) {
	c.mu.Lock()
	if c.collect != nil {
		c.collect.Counts[name] += n
		c.mu.Unlock()
		return
	}
	c.counters[name] += n
	c.mu.Unlock()
}

func (c *Ctx) Max(name string, n int64) {
	c.mu.Lock()
	if c.collect != nil {
		if n > c.collect.Maxes[name] {
			c.collect.Maxes[name] = n
		}
		c.mu.Unlock()
		return
	}
	if n > c.counters[name] {
		c.counters[name] = n
	}
	c.mu.Unlock()
}

func (c *Ctx) Counter(name string) int64 {
	c.mu.Lock()
	defer c.mu.Unlock()
	return c.counters[name]
}

// Sample keeps a few cases written out for the evidence file.
func (c *Ctx) Sample(v any) {
	c.mu.Lock()
	if len(c.samples) < c.sampleCap {
		c.samples = append(c.samples, v)
	}
	c.mu.Unlock()
}

// SampleKey keeps at most two samples per key (and at most 16 keys), so that the evidence shows
// one case of each kind instead of the first few of one kind.
func (c *Ctx) SampleKey(key string, v any) {
	c.mu.Lock()
	if c.collect != nil {
		if len(c.collect.Samples) < 4 {
			b, _ := json.Marshal(v)
			c.collect.Samples = append(c.collect.Samples, CaseSample{key, b})
		}
		c.mu.Unlock()
		return
	}
	if c.sampleKeys == nil {
		c.sampleKeys = map[string]int{}
	}
	if n, ok := c.sampleKeys[key]; (ok && n < 2) || (!ok && len(c.sampleKeys) < 16) {
		c.sampleKeys[key] = n + 1
		c.samples = append(c.samples, v)
	}
	c.mu.Unlock()
}

func (c *Ctx) Inconclusive(what string) {
	c.mu.Lock()
	if c.collect != nil {
		c.collect.Inconclusive = append(c.collect.Inconclusive, what)
		c.mu.Unlock()
		return
	}
	c.inconcl++
	c.mu.Unlock()
	fmt.Printf("INCONCLUSIVE property=%s %s\n", c.ID, what)
}

// Violation reports a refuting observation. scenario names a deterministic named scenario (or ""
// for a generated case); symptom is a short symptom class. If (property, scenario, symptom) is
// listed as a known finding the line KNOWN-FINDING is printed instead (once per entry).
func (c *Ctx) Violation(caseID, scenario, symptom string, witness any) {
	c.mu.Lock()
	defer c.mu.Unlock()
	if c.collect != nil {
		if len(c.collect.Viol) < 10 {
			b, err := json.Marshal(witness)
			if err != nil {
				b, _ = json.Marshal(fmt.Sprint(witness))
			}
			c.collect.Viol = append(c.collect.Viol, CaseViol{caseID, scenario, symptom, b})
		}
		return
	}
	if scenario != "" {
		for _, f := range c.findings {
			if f.Property == c.ID && f.Status == "known" && f.Scenario == scenario && f.Symptom == symptom {
				k := scenario + "\x00" + symptom
				if !c.knownHit[k] {
					c.knownHit[k] = true
					fmt.Printf("KNOWN-FINDING: property=%s scenario=%s symptom=%s %s\n", c.ID, scenario, symptom, f.What)
				}
				return
			}
		}
	}
	c.violations++
	if c.violations > 25 {
		return // enough witnesses
	}
	c.nreplay++
	path := filepath.Join(VerifDir, "replays", fmt.Sprintf("%s-%s-seed%d-%d.json", c.ID, c.Tier, c.Seed, c.nreplay))
	os.MkdirAll(filepath.Dir(path), 0o755)
	b, err := json.MarshalIndent(map[string]any{
		"property": c.ID, "tier": c.Tier, "seed": c.Seed,
		"case": caseID, "scenario": scenario, "symptom": symptom, "witness": witness,
	}, "", " ")
	if err != nil {
		b = []byte(fmt.Sprintf(`{"property":%q,"scenario":%q,"symptom":%q,"witness":%q}`, c.ID, scenario, symptom, fmt.Sprint(witness)))
	}
	os.WriteFile(path, b, 0o644)
	fmt.Printf("VIOLATION property=%s replay=%s\n", c.ID, path)
	fmt.Printf("  case=%q scenario=%q symptom=%q\n", caseID, scenario, symptom)
}

func (c *Ctx) Violations() int {
	c.mu.Lock()
	defer c.mu.Unlock()
	return c.violations
}

// Finish writes the evidence file and exits with the verdict.
func (c *Ctx) Finish() {
	c.mu.Lock()
	cov := map[string]any{
		"evaluations":         c.evaluations,
		"distinct_nontrivial": len(c.distinct),
		"rule":                c.rule,
		"samples":             c.samples,
		"exhaustive":          c.exhaustive,
		"inconclusive":        c.inconcl,
	}
	names := make([]string, 0, len(c.counters))
	for k := range c.counters {
		names = append(names, k)
	}
	sort.Strings(names)
	obs := map[string]int64{}
	for _, k := range names {
		obs[k] = c.counters[k]
	}
	cov["observed"] = obs
	for k, v := range c.extra {
		cov[k] = v
	}
	known := []string{}
	for k := range c.knownHit {
		known = append(known, strings.ReplaceAll(k, "\x00", " / "))
	}
	sort.Strings(known)
	cov["known_findings_reproduced"] = known
	ev := map[string]any{
		"property_id": c.ID,
		"tier":        c.Tier,
		"seed":        c.Seed,
		"level":       c.Level,
		"coverage":    cov,
		"assumptions": append([]string{}, c.assumptions...),
		"wall_s":      time.Since(c.start).Seconds(),
		"violations":  c.violations,
	}
	viol, evals, dist, inconcl := c.violations, c.evaluations, len(c.distinct), c.inconcl
	c.mu.Unlock()

	if c.Replay == "" {
		b, _ := json.MarshalIndent(ev, "", " ")
		os.MkdirAll(filepath.Join(VerifDir, "evidence"), 0o755)
		path := filepath.Join(VerifDir, "evidence", c.ID+".json")
		tmp := path + ".tmp"
		if err := os.WriteFile(tmp, b, 0o644); err != nil {
			Fatalf("evidence: %v", err)
		}
		os.Rename(tmp, path)
	}
	if os.Getenv("VERIF_SCRATCH") == "" {
		os.RemoveAll(c.Scratch)
	}
	fmt.Printf("SUMMARY property=%s tier=%s seed=%d evaluations=%d distinct_nontrivial=%d violations=%d inconclusive=%d wall=%.1fs\n",
		c.ID, c.Tier, c.Seed, evals, dist, viol, inconcl, time.Since(c.start).Seconds())
	if viol > 0 {
		os.Exit(1)
	}
	if c.Replay == "" && (evals == 0 || dist < 2) {
		fmt.Printf("NO-EVIDENCE property=%s: the workload observed nothing non-trivial\n", c.ID)
		os.Exit(2)
	}
	os.Exit(0)
}

// ClearReplays removes witness files left by an earlier run of the same check, tier and seed.
func (c *Ctx) ClearReplays() {
	m, _ := filepath.Glob(filepath.Join(VerifDir, "replays", fmt.Sprintf("%s-%s-seed%d-*.json", c.ID, c.Tier, c.Seed)))
	for _, f := range m {
		os.Remove(f)
	}
}

// Parallel runs f(i) for i in [0,n) on the given number of goroutines (pure, crash-free work only).
func Parallel(n, workers int, f func(i int)) {
	if workers < 1 {
		workers = 1
	}
	var wg sync.WaitGroup
	next := int64(-1)
	var mu sync.Mutex
	for w := 0; w < workers; w++ {
		wg.Add(1)
		go func() {
			defer wg.Done()
			for {
				mu.Lock()
				next++
				i := next
				mu.Unlock()
				if i >= int64(n) {
					return
				}
				f(int(i))
			}
		}()
	}
	wg.Wait()
}
