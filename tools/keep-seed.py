#!/usr/bin/env python3
"""keep-seed.py <name> <property> <worktree> <detected_by> <needs> <ran...>  : store a confirmed seeded change under /verif/seeded/<name>/"""
import sys, os, shutil, json
name, prop, wt, detected, needs = sys.argv[1:6]
ran = sys.argv[6:]
dst = f"/verif/seeded/{name}"
os.makedirs(dst, exist_ok=True)
for f in os.listdir(f"{wt}/OUT"):
    src = f"{wt}/OUT/{f}"
    if os.path.isfile(src) and os.path.getsize(src) < 2_000_000:
        shutil.copy(src, dst)
meta = {"breaks_property": prop, "needs_to_manifest": needs, "detected_by": detected.split(","),
        "confirmed": ran, "origin": "independent sub-agent given only the property text and a scratch worktree"}
json.dump(meta, open(f"{dst}/meta.json", "w"), indent=1)
print("kept", dst, os.listdir(dst))
