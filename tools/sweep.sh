#!/bin/bash
# tools/sweep.sh <tier> <seed>...   run every check at the given seeds; print one line per check
tier=$1; shift
cd /verif
for seed in "$@"; do
  for id in C01 C02 C03 C04 C05 C06 C07 C08 C09 C10 C11 C12 C13 C14 C15 C16 C17 C18 C19 C20; do
    out=$(VERIF_SEED=$seed ./check $id $tier 2>&1); rc=$?
    echo "seed=$seed rc=$rc $(echo "$out" | grep -E '^SUMMARY' | sed 's/SUMMARY property=//')"
    echo "$out" | grep -E "^(VIOLATION|INCONCLUSIVE|NO-EVIDENCE|BUILD-FAILED)" | head -3
    echo "$out" | grep -E "^  case=" | head -3
  done
done
