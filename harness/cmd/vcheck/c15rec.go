package main

import (
	"bytes"
	"encoding/base64"
	"encoding/json"
	"fmt"
	"os"
	"path/filepath"
	"runtime"
	"sort"
	"strconv"
	"strings"
	"time"

	"github.com/pgavlin/dawn/pickle"
	"github.com/pgavlin/dawn/verifharness/core"
	"github.com/pgavlin/dawn/verifharness/pj"
	"go.starlark.net/starlark"
)

func init() { registerCase("c15rec", c15RecCase) }

const c15Build = `K = 300
D = {"a": [1, 2.5, "s"], "b": (None, True)}
def helper(x, d=7):
    return [x, d, K]
def fact(n):
    return 1 if n <= 1 else n * fact(n - 1)
def mk(n):
    def inner():
        return [n, D]
    return inner
cl = mk(5)
@target(sources=["s.txt"], generates=["out/a.txt"])
def a(self):
    """Builds a."""
    v.body("//:a", [K, helper(1), fact(4), cl()], ["s.txt"], "out/a.txt")
@target(deps=[":a"], sources=["out/a.txt", "dir"], generates=["out/b.txt"])
def b(self):
    v.body("//:b", [D, len([1])], ["out/a.txt", "dir"], "out/b.txt")
@target(deps=[":a", ":b"], default=True)
def all(self):
    v.body("//:all", [0], ["out/a.txt", "out/b.txt"], "")
`

// c15Base builds the reference project once (per process) and returns its session directory.
func c15Base(scratch string) (string, error) {
	dir := filepath.Join(scratch, fmt.Sprintf("c15base-%d", os.Getpid()))
	if _, err := os.Stat(filepath.Join(dir, "ok")); err == nil {
		return dir, nil
	}
	os.RemoveAll(dir)
	s := pj.NewSession(dir)
	os.WriteFile(filepath.Join(s.Root, "dawn.toml"), []byte("name = \"c15\"\n"), 0o644)
	os.WriteFile(filepath.Join(s.Root, "BUILD.dawn"), []byte(c15Build), 0o644)
	os.WriteFile(filepath.Join(s.Root, "s.txt"), []byte("source\n"), 0o644)
	os.MkdirAll(filepath.Join(s.Root, "dir"), 0o755)
	os.WriteFile(filepath.Join(s.Root, "dir", "x.txt"), []byte("x\n"), 0o644)
	for i := 0; i < 2; i++ {
		res := pj.Build(pj.BuildReq{Root: s.Root, Target: "//:default"})
		if res.LoadErr != "" || res.RunErr != "" {
			return "", fmt.Errorf("base build: %s%s", res.LoadErr, res.RunErr)
		}
	}
	os.WriteFile(filepath.Join(dir, "ok"), nil, 0o644)
	return dir, nil
}

func recordFiles(root string) []string {
	var out []string
	for rel := range pj.Records(root) {
		out = append(out, rel)
	}
	sort.Strings(out)
	return out
}

// realStamps returns the pickled function environments of a built project.
func realStamps(c *core.Ctx) [][]byte {
	dir, err := c15Base(c.Scratch)
	if err != nil {
		return nil
	}
	var out [][]byte
	recs := pj.Records(filepath.Join(dir, "tree"))
	for _, rel := range recordFiles(filepath.Join(dir, "tree")) {
		if strings.HasPrefix(rel, "targets/") {
			if b, err := base64.StdEncoding.DecodeString(recs[rel].Stamp); err == nil && len(b) > 0 && len(b) < 1500 {
				out = append(out, b)
			}
		}
	}
	return out
}

// ---- mirror of dawn's environment unpickler (to decide semantic equality of stamps) ----------

func assocDict(v starlark.Value) starlark.Value {
	pairs, ok := v.(starlark.Tuple)
	if !ok {
		return starlark.None
	}
	d := starlark.NewDict(len(pairs))
	for _, pv := range pairs {
		p := pv.(starlark.Tuple)
		d.SetKey(p[0].(starlark.String), p[1])
	}
	return d
}

func mirrorUnpickler(module, name string, args starlark.Tuple) (v starlark.Value, err error) {
	defer func() {
		if r := recover(); r != nil {
			err = fmt.Errorf("malformed arguments for %s.%s: %v", module, name, r)
		}
	}()
	if module != "dawn" {
		return nil, fmt.Errorf("cannot unpickle %s.%s", module, name)
	}
	switch name {
	case "Target":
		if len(args) != 1 {
			return nil, fmt.Errorf("arity")
		}
		return args[0], nil
	case "Recursive":
		if len(args) != 1 {
			return nil, fmt.Errorf("arity")
		}
		return starlark.Tuple{starlark.String("recursive reference"), args[0]}, nil
	case "Builtin":
		if len(args) > 1 {
			return nil, fmt.Errorf("arity")
		}
		return args, nil
	case "FunctionCode":
		if len(args) != 3 {
			return nil, fmt.Errorf("arity")
		}
		m := args[0].(starlark.Tuple)
		d := starlark.NewDict(7)
		d.SetKey(starlark.String("names"), m[0])
		d.SetKey(starlark.String("constant values"), m[1])
		d.SetKey(starlark.String("predeclared values"), assocDict(m[2]))
		d.SetKey(starlark.String("universal values"), assocDict(m[3]))
		d.SetKey(starlark.String("function values"), m[4])
		d.SetKey(starlark.String("global values"), assocDict(args[1]))
		d.SetKey(starlark.String("code"), args[2])
		return d, nil
	case "Function":
		if len(args) != 3 {
			return nil, fmt.Errorf("arity")
		}
		fc := args[2].(*starlark.Dict)
		fc.SetKey(starlark.String("default parameter values"), assocDict(args[0]))
		fc.SetKey(starlark.String("free variables"), assocDict(args[1]))
		return fc, nil
	}
	return nil, fmt.Errorf("cannot unpickle %s.%s", module, name)
}

func mirrorEnv(stamp string) (starlark.Value, error) {
	if stamp == "" {
		return starlark.None, nil
	}
	raw, err := base64.StdEncoding.DecodeString(stamp)
	if err != nil {
		return nil, err
	}
	v, err := pickle.NewDecoder(bytes.NewReader(raw), pickle.UnpicklerFunc(mirrorUnpickler)).Decode()
	if err != nil {
		return nil, err
	}
	if v == nil {
		return nil, fmt.Errorf("decoder returned nothing")
	}
	return v, nil
}

// semanticallyEqual: would a correct dawn treat the corrupted record exactly like the original?
func semanticallyEqual(orig, corrupted []byte, isTarget bool) (bool, string) {
	var a, b pj.Record
	if err := json.NewDecoder(bytes.NewReader(orig)).Decode(&a); err != nil {
		return false, "original unreadable"
	}
	if err := json.NewDecoder(bytes.NewReader(corrupted)).Decode(&b); err != nil {
		return false, "corrupted record is not valid JSON: " + err.Error()
	}
	if a.Rerun != b.Rerun {
		return false, "rerun flag differs"
	}
	if fmt.Sprint(a.Dependencies) != fmt.Sprint(b.Dependencies) {
		return false, "dependency stamps differ"
	}
	if a.Stamp == b.Stamp {
		return true, ""
	}
	if !isTarget {
		return false, "source stamp differs"
	}
	ea, err1 := mirrorEnv(a.Stamp)
	eb, err2 := mirrorEnv(b.Stamp)
	if err1 != nil || err2 != nil {
		return false, fmt.Sprintf("stamp does not decode: %v", err2)
	}
	eq, err := starlark.EqualDepth(ea, eb, 1000)
	if err != nil || !eq {
		return false, "decoded environment differs"
	}
	return true, ""
}

// ---- corruption specs -------------------------------------------------------------------------

// corruptRecord applies spec to the raw record; ok=false if the spec does not apply.
func corruptRecord(raw []byte, kind string, p1, p2 int) ([]byte, bool) {
	var rec map[string]json.RawMessage
	json.Unmarshal(raw, &rec)
	stampBytes := func() []byte {
		var s string
		if json.Unmarshal(rec["stamp"], &s) != nil {
			return nil
		}
		b, err := base64.StdEncoding.DecodeString(s)
		if err != nil {
			return nil
		}
		return b
	}
	withStamp := func(pk []byte) []byte {
		q, _ := json.Marshal(base64.StdEncoding.EncodeToString(pk))
		rec["stamp"] = q
		out, _ := json.Marshal(rec)
		return append(out, '\n')
	}
	switch kind {
	case "jtrunc":
		if p1 >= len(raw) {
			return nil, false
		}
		return raw[:p1], true
	case "jsub":
		if p1 >= len(raw) || raw[p1] == byte(p2) {
			return nil, false
		}
		out := append([]byte(nil), raw...)
		out[p1] = byte(p2)
		return out, true
	case "jwhole":
		bodies := []string{"", "\n", "  \n\t", "null\n", "[]\n", "{}\n", "{\"stamp\": 5}\n", "{\"dependencies\": []}\n", "{\"stamp\": \"!!!not-base64!!!\"}\n",
			"{\"stamp\": \"AAAA\"}\n", "{\"rerun\": \"yes\"}\n", "\x00\x00\x00\x00", "{\"stamp\": \"Ti4=\"}\n", "{\"doc\": {\"a\": 1}}\n", "42\n", "\"str\"\n"}
		if p1 >= len(bodies) {
			return nil, false
		}
		return []byte(bodies[p1]), true
	case "ssub":
		pk := stampBytes()
		if pk == nil || p1 >= len(pk) || pk[p1] == byte(p2) {
			return nil, false
		}
		pk[p1] = byte(p2)
		return withStamp(pk), true
	case "strunc":
		pk := stampBytes()
		if pk == nil || p1 >= len(pk) {
			return nil, false
		}
		return withStamp(pk[:p1]), true
	case "sflip":
		// the p1-th container-constructor opcode becomes the constructor of another container kind: an empty tuple an empty
		// list or dict, an empty list a tuple, ... - the record still decodes, to an environment of another shape
		pk := stampBytes()
		if pk == nil {
			return nil, false
		}
		flips := map[byte][]byte{')': {']', '}'}, ']': {')', '}'}, '}': {']', ')'}}
		k := 0
		for i, b := range pk {
			if alts, ok := flips[b]; ok {
				if k == p1 {
					pk[i] = alts[p2%len(alts)]
					return withStamp(pk), true
				}
				k++
			}
		}
		return nil, false
	case "ssplice":
		pk := stampBytes()
		if pk == nil || len(pk) < 2 {
			return nil, false
		}
		body := pk[:len(pk)-1] // without STOP
		switch p1 {
		case 0: // an extra key in the environment dict
			return withStamp(append(append([]byte(nil), body...), '(', 0x8c, 2, 'z', 'z', 'N', 'u', '.')), true
		case 1: // every key removed but an unknown one: wrap into a fresh dict
			return withStamp([]byte{'}', '(', 0x8c, 2, 'z', 'z', 'N', 'u', '.'}), true
		case 2: // not a dict at all
			return withStamp([]byte{'K', 5, '.'}), true
		case 3: // an empty dict
			return withStamp([]byte{'}', '.'}), true
		case 4: // first TUPLE3 becomes TUPLE2
			if i := bytes.IndexByte(body, 0x87); i >= 0 {
				out := append([]byte(nil), pk...)
				out[i] = 0x86
				return withStamp(out), true
			}
		case 5: // a dawn.FunctionCode whose module element is not a tuple
			return withStamp([]byte{0x8c, 4, 'd', 'a', 'w', 'n', 0x8c, 12, 'F', 'u', 'n', 'c', 't', 'i', 'o', 'n', 'C', 'o', 'd', 'e', 0x93, 'N', 'N', 'N', 0x87, 0x81, '.'}), true
		case 6: // a dawn.Function whose code is not a dict
			return withStamp([]byte{0x8c, 4, 'd', 'a', 'w', 'n', 0x8c, 8, 'F', 'u', 'n', 'c', 't', 'i', 'o', 'n', 0x93, ')', ')', 'N', 0x87, 0x81, '.'}), true
		case 7: // a FunctionCode with a too short module tuple
			return withStamp([]byte{0x8c, 4, 'd', 'a', 'w', 'n', 0x8c, 12, 'F', 'u', 'n', 'c', 't', 'i', 'o', 'n', 'C', 'o', 'd', 'e', 0x93, ')', 0x85, ')', 'N', 0x87, 0x81, '.'}), true
		case 8: // association list with a non-string name
			return withStamp([]byte{0x8c, 4, 'd', 'a', 'w', 'n', 0x8c, 8, 'F', 'u', 'n', 'c', 't', 'i', 'o', 'n', 0x93, 'K', 1, 'K', 2, 0x86, 0x85, ')', '}', 0x87, 0x81, '.'}), true
		case 9: // STOP on an empty stack
			return withStamp([]byte{'.'}), true
		case 10: // a leaked mark as the value
			return withStamp([]byte{'(', '.'}), true
		}
		return nil, false
	case "depstamp":
		var deps map[string]string
		if json.Unmarshal(rec["dependencies"], &deps) != nil || len(deps) == 0 {
			return nil, false
		}
		keys := make([]string, 0, len(deps))
		for k := range deps {
			keys = append(keys, k)
		}
		sort.Strings(keys)
		k := keys[p1%len(keys)]
		switch p2 {
		case 0:
			deps[k] = deps[k] + "x"
		case 1:
			delete(deps, k)
		default:
			deps[k] = ""
		}
		q, _ := json.Marshal(deps)
		rec["dependencies"] = q
		out, _ := json.Marshal(rec)
		return append(out, '\n'), true
	}
	return nil, false
}

// parsesAsRecord: can the first JSON value of b be read as a record (the file format of .dawn/build/{targets,sources}/*)?
func parsesAsRecord(b []byte) bool {
	var rec struct {
		Doc          string            `json:"doc"`
		Dependencies map[string]string `json:"dependencies"`
		Stamp        string            `json:"stamp"`
		Run          string            `json:"run"`
		Rerun        bool              `json:"rerun"`
	}
	return json.NewDecoder(bytes.NewReader(b)).Decode(&rec) == nil
}

func labelOfRecord(rel string) string {
	// targets/%2Fa -> //:a ; sources/out%2Fa.txt -> source://out:a.txt
	parts := strings.SplitN(rel, "/", 2)
	name := strings.ReplaceAll(parts[1], "%2F", "/")
	i := strings.LastIndex(name, "/")
	pkg, n := name[:i], name[i+1:]
	if parts[0] == "sources" {
		return "source://" + pkg + ":" + n
	}
	return "//" + pkg + ":" + n
}

// c15RecCase: id = rec/<fileIndex>/<kind>/<p1>/<p2>  or  irec/<fileIndex>/<kind>/<p1>/<p2>  or  idx/<kind>/<p1>/<p2>
func c15RecCase(c *core.Ctx, id string) {
	base, err := c15Base(c.Scratch)
	if err != nil {
		c.Inconclusive("base project: " + err.Error())
		return
	}
	parts := strings.Split(id, "/")
	work := filepath.Join(c.Scratch, fmt.Sprintf("c15w-%d", os.Getpid()))
	os.RemoveAll(work)
	defer os.RemoveAll(work)
	pj.CopyDir(base, work)
	s := pj.NewSession(work)
	files := recordFiles(s.Root)
	var path, rel string
	var raw, corrupted []byte
	preferIndex := false
	ok := false
	if parts[0] == "idx" {
		preferIndex = true
		rel = "index.json"
		path = filepath.Join(s.Root, ".dawn", "build", "index.json")
		raw, _ = os.ReadFile(path)
		p1, _ := strconv.Atoi(parts[2])
		p2, _ := strconv.Atoi(parts[3])
		corrupted, ok = corruptRecord(raw, parts[1], p1, p2)
	} else {
		// irec/... = the same corruption, met by an index-preferring load (which trusts the records it reads lazily)
		preferIndex = parts[0] == "irec"
		fi, _ := strconv.Atoi(parts[1])
		if fi >= len(files) {
			return
		}
		rel = files[fi]
		path = filepath.Join(s.Root, ".dawn", "build", rel)
		raw, _ = os.ReadFile(path)
		p1, _ := strconv.Atoi(parts[3])
		p2, _ := strconv.Atoi(parts[4])
		corrupted, ok = corruptRecord(raw, parts[2], p1, p2)
	}
	if !ok {
		return
	}
	// lrec/... = the same corruption, met by a long-lived Project that had loaded the intact record before: built, reloaded
	// once more, then the record is damaged and the project is Reload()ed and built again
	var lv *pj.Live
	if parts[0] == "lrec" {
		lv = &pj.Live{}
		lv.Build(pj.BuildReq{Root: s.Root, Target: "//:default"})
		lv.Build(pj.BuildReq{Root: s.Root})
	}
	os.WriteFile(path, corrupted, 0o644)
	from := s.LogLen()
	var res pj.BuildRes
	if lv != nil {
		res = lv.Build(pj.BuildReq{Root: s.Root, Target: "//:default"})
	} else {
		res = pj.Build(pj.BuildReq{Root: s.Root, Target: "//:default", PreferIndex: preferIndex})
	}
	// "executed" = dawn evaluated the target again (the default target's body is a builtin that
	// writes no log line, so the evaluating events are used; the log is a cross-check)
	executed := map[string]bool{}
	for _, ev := range res.Events {
		if ev.Kind == "TargetEvaluating" {
			executed[ev.Label] = true
		}
	}
	for _, le := range s.ReadLog(from) {
		if le.Kind == "S" {
			executed[le.Label] = true
		}
	}
	outcome := ""
	switch {
	case res.LoadErr != "":
		outcome = "load-error"
	case res.RunErr != "":
		outcome = "build-error"
	case len(executed) > 0:
		outcome = "re-executed"
	default:
		outcome = "nothing-executed"
	}
	c.Count("record_outcome:"+outcome, 1)
	c.Count("corruption:"+strings.Split(id, "/")[len(parts)-3], 1)
	key := id
	viol := func(sym, why string) {
		c.Violation(id, "", sym, map[string]any{"record": rel, "why": why, "original": string(raw), "corrupted": string(corrupted), "outcome": outcome, "executed": sortedKeys(executed), "error": res.LoadErr + res.RunErr})
	}
	// a record file from which no JSON value of the documented shape (doc/dependencies/stamp/run/rerun) can be read is
	// corrupted beyond doubt: it must surface as a reported load or build error under either kind of load
	if parts[0] != "idx" && !parsesAsRecord(corrupted) {
		c.Count("unparseable_record_cases", 1)
		if outcome == "nothing-executed" || outcome == "re-executed" {
			viol("unparseable-record-not-reported", "the record file holds no JSON value of the record's shape, yet neither the load nor the build reported an error")
		}
	}
	// a function target's record whose stamp no longer decodes (bad base64, not a pickle, truncated) is corrupted beyond
	// doubt as well: a full load - fresh, or the Reload() of a long-lived Project - has to report it
	if (parts[0] == "rec" || parts[0] == "lrec") && strings.HasPrefix(rel, "targets/") && parsesAsRecord(corrupted) {
		var rc pj.Record
		if json.NewDecoder(bytes.NewReader(corrupted)).Decode(&rc) == nil && rc.Stamp != "" {
			if _, derr := mirrorEnv(rc.Stamp); derr != nil {
				c.Count("undecodable_stamp_cases", 1)
				if outcome == "nothing-executed" || outcome == "re-executed" {
					viol("unparseable-record-not-reported", "the record's stamp does not decode ("+derr.Error()+"), yet neither the load nor the build reported an error")
				}
			}
		}
	}
	// (index targets are never executable, so "must have re-executed" is only meaningful after a full load)
	if (parts[0] == "rec" || parts[0] == "lrec") && (outcome == "nothing-executed" || outcome == "re-executed") {
		lbl := labelOfRecord(rel)
		isTarget := strings.HasPrefix(rel, "targets/")
		same, why := semanticallyEqual(raw, corrupted, isTarget)
		if same {
			c.Count("record_semantically_equal_after_corruption", 1)
			key = ""
		} else {
			// the record's own target (or, for a source, something depending on it) must have run
			ran := executed[lbl]
			if !isTarget {
				ran = len(executed) > 0
			}
			if !ran {
				viol("corrupted-record-silently-treated-as-up-to-date", why)
			}
		}
	}
	c.Eval(key)
}

// c15Records enumerates corruptions of every record of the reference project.
func c15Records(c *core.Ctx) {
	base, err := c15Base(c.Scratch)
	if err != nil {
		c.Inconclusive("base project: " + err.Error())
		return
	}
	root := filepath.Join(base, "tree")
	recs := pj.Records(root)
	files := recordFiles(root)
	var ids []string
	add := func(id string) {
		if c.Want(id) {
			ids = append(ids, id)
		}
	}
	r := c.Rand("records")
	interesting := []int{'"', '{', '}', ':', ',', 'x', 0, ' ', '[', '0', 't', '\\', 0x80, '/'}
	opcodes := []int{'(', '.', 'N', 'K', 'M', 'J', ']', 'a', 'e', ')', 0x85, 0x86, 0x87, 't', '}', 'u', 0x8c, 0x93, 0x81, 0x94, 'h', 0, 0xff, 'X', 'B'}
	for fi, rel := range files {
		raw := recs[rel].Raw
		step := c.N(13, 1)
		for n := 0; n < len(raw); n += step {
			add(fmt.Sprintf("rec/%d/jtrunc/%d/0", fi, n))
		}
		// the same record corruptions under an index-preferring load
		for n := 0; n < len(raw); n += c.N(41, 3) {
			add(fmt.Sprintf("irec/%d/jtrunc/%d/0", fi, n))
		}
		for k := 0; k < c.N(30, 600); k++ {
			add(fmt.Sprintf("irec/%d/jsub/%d/%d", fi, r.IntN(len(raw)), interesting[r.IntN(len(interesting))]))
		}
		for k := 0; k < 16; k++ {
			add(fmt.Sprintf("irec/%d/jwhole/%d/0", fi, k))
		}
		for k := 0; k < 6; k++ {
			add(fmt.Sprintf("irec/%d/depstamp/%d/%d", fi, k/3, k%3))
		}
		// ... and met by a long-lived Project on Reload
		for n := 0; n < len(raw); n += c.N(61, 5) {
			add(fmt.Sprintf("lrec/%d/jtrunc/%d/0", fi, n))
		}
		for k := 0; k < 16; k++ {
			add(fmt.Sprintf("lrec/%d/jwhole/%d/0", fi, k))
		}
		if strings.HasPrefix(rel, "targets/") {
			pk, _ := base64.StdEncoding.DecodeString(recs[rel].Stamp)
			for k := 0; k < c.N(25, 2000) && len(pk) > 0; k++ {
				add(fmt.Sprintf("lrec/%d/ssub/%d/%d", fi, r.IntN(len(pk)), opcodes[r.IntN(len(opcodes))]))
			}
			for n := 0; n < len(pk); n += c.N(97, 7) {
				add(fmt.Sprintf("lrec/%d/strunc/%d/0", fi, n))
			}
			for k := 0; k <= 10; k++ {
				add(fmt.Sprintf("lrec/%d/ssplice/%d/0", fi, k))
			}
		}
		if strings.HasPrefix(rel, "targets/") {
			pk, _ := base64.StdEncoding.DecodeString(recs[rel].Stamp)
			for k := 0; k < c.N(30, 2000) && len(pk) > 0; k++ {
				add(fmt.Sprintf("irec/%d/ssub/%d/%d", fi, r.IntN(len(pk)), opcodes[r.IntN(len(opcodes))]))
			}
			for k := 0; k <= 10; k++ {
				add(fmt.Sprintf("irec/%d/ssplice/%d/0", fi, k))
			}
		}
		nsub := c.N(150, 3000)
		for k := 0; k < nsub; k++ {
			add(fmt.Sprintf("rec/%d/jsub/%d/%d", fi, r.IntN(len(raw)), interesting[r.IntN(len(interesting))]))
		}
		for k := 0; k < 16; k++ {
			add(fmt.Sprintf("rec/%d/jwhole/%d/0", fi, k))
		}
		for k := 0; k < 6; k++ {
			add(fmt.Sprintf("rec/%d/depstamp/%d/%d", fi, k/3, k%3))
		}
		if strings.HasPrefix(rel, "targets/") {
			pk, _ := base64.StdEncoding.DecodeString(recs[rel].Stamp)
			ns := c.N(120, 12000)
			for k := 0; k < ns && len(pk) > 0; k++ {
				add(fmt.Sprintf("rec/%d/ssub/%d/%d", fi, r.IntN(len(pk)), opcodes[r.IntN(len(opcodes))]))
			}
			tstep := c.N(29, 1)
			for n := 0; n < len(pk); n += tstep {
				add(fmt.Sprintf("rec/%d/strunc/%d/0", fi, n))
			}
			for k := 0; k <= 10; k++ {
				add(fmt.Sprintf("rec/%d/ssplice/%d/0", fi, k))
			}
			nflip := 0
			for _, b := range pk {
				if b == ')' || b == ']' || b == '}' {
					nflip++
				}
			}
			if nflip > c.N(40, 100000) {
				nflip = c.N(40, 100000)
			}
			for k := 0; k < nflip; k++ {
				add(fmt.Sprintf("rec/%d/sflip/%d/%d", fi, k, k%2))
			}
		}
	}
	idx, _ := os.ReadFile(filepath.Join(root, ".dawn", "build", "index.json"))
	for n := 0; n < len(idx); n += c.N(37, 3) {
		add(fmt.Sprintf("idx/jtrunc/%d/0", n))
	}
	// index.json is small: every position x every interesting byte
	idxBytes := interesting
	if c.Quick() {
		idxBytes = []int{'"', ':', 'x', 0, '}', '/'}
	}
	for pos := 0; pos < len(idx); pos++ {
		for _, b := range idxBytes {
			add(fmt.Sprintf("idx/jsub/%d/%d", pos, b))
		}
	}
	for k := 0; k < 16; k++ {
		add(fmt.Sprintf("idx/jwhole/%d/0", k))
	}
	c.Extra("record_files_corrupted", files)
	c.Extra("record_corruption_cases", len(ids))
	workers := runtime.NumCPU() - 2
	if workers > 14 {
		workers = 14
	}
	c.RunSharded(ids, core.ShardOpts{Mode: "c15rec", Workers: workers, Timeout: 20 * time.Minute, MaxDeaths: 40, Env: []string{"VERIF_CASE_TIMEOUT=30"},
		Died: func(caseID string, r *core.ChildResult) {
			if r.Exit == 97 {
				c.Violation(caseID, "", "corrupted-record-makes-load-or-build-hang", map[string]any{"bound": "Load+Run of the reference project (normally ~3 ms) did not finish within 30 s", "stderr": headLinesStr(r.Stderr, 40)})
				return
			}
			if r.TimedOut && r.FatalKind() == "" {
				c.Inconclusive("record corruption " + caseID + ": watchdog fired")
				return
			}
			c.Violation(caseID, "", "corrupted-record-crashes-the-process:"+r.FatalKind(), map[string]any{"stderr": headLinesStr(r.Stderr, 30)})
		}})
	c.Sample(map[string]any{"kind": "record corruption case ids", "value": []string{"rec/<record>/jtrunc/<len>", "rec/<record>/jsub/<pos>/<byte>", "rec/<record>/jwhole/<k>", "rec/<record>/ssub/<pos>/<byte> (inside the pickled stamp)", "rec/<record>/strunc/<len>", "rec/<record>/ssplice/<k>", "rec/<record>/sflip/<k>/<alt> (container constructor flipped to another kind)", "rec/<record>/depstamp/<k>/<how>", "irec/... (the same record corruptions met by an index-preferring load)", "lrec/... (met by a long-lived Project on Reload)", "idx/... (index.json with an index-preferring load)"}})
}
