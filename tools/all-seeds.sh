#!/bin/bash
# tools/all-seeds.sh [name-filter]  : apply every seeded change to /repo in turn, run the quick checks listed in its
# meta.json (detected_by), undo it, and report whether each check raised a violation.
export GOFLAGS=-mod=mod GOPROXY=off GOSUMDB=off GOTOOLCHAIN=local
cd /verif
for d in seeded/*${1:-}*/; do
  name=$(basename $d)
  patch=/verif/$d/patch.diff; [ -f /verif/$d/patch-rebased.diff ] && patch=/verif/$d/patch-rebased.diff
  checks=$(python3 -c "import json;print(' '.join(json.load(open('$d/meta.json'))['detected_by']))")
  if grep -q '"note_after_fix_' $d/meta.json; then echo "$name: NEUTRALISED by a later fix: commit (see meta.json); not re-checked"; continue; fi
  git -C /repo diff --quiet || { echo "/repo dirty"; exit 2; }
  if ! git -C /repo apply $patch 2>/dev/null; then echo "$name: PATCH-DOES-NOT-APPLY"; continue; fi
  res=""
  for id in $checks; do
    out=$(./check $id quick 2>&1); rc=$?
    v=$(echo "$out" | grep -c '^VIOLATION')
    res="$res $id:rc=$rc,viol=$v"
  done
  git -C /repo checkout -- .
  echo "$name:$res"
done
