package main

import (
	"fmt"
	"io"
	"os"
	"path/filepath"
	"runtime"
	"strings"
	"sync"
	"sync/atomic"
	"time"

	"github.com/anishathalye/porcupine"
	dawn "github.com/pgavlin/dawn"
	"github.com/pgavlin/dawn/label"
	"github.com/pgavlin/dawn/verifharness/core"
	"github.com/pgavlin/dawn/verifharness/pj"
	"go.starlark.net/starlark"
)

func init() {
	register("C20", "exploration", runC20)
	registerCase("c20", c20Case)
}

type onceIn struct {
	Key      string
	WillFail bool
	MyID     string
}

type onceOut struct {
	Val     string
	Err     bool
	Invoked bool
}

var onceModel = porcupine.Model{
	Partition: func(history []porcupine.Operation) [][]porcupine.Operation {
		m := map[string][]porcupine.Operation{}
		var keys []string
		for _, op := range history {
			k := op.Input.(onceIn).Key
			if _, ok := m[k]; !ok {
				keys = append(keys, k)
			}
			m[k] = append(m[k], op)
		}
		out := make([][]porcupine.Operation, 0, len(keys))
		for _, k := range keys {
			out = append(out, m[k])
		}
		return out
	},
	Init: func() interface{} { return "" },
	Step: func(state, input, output interface{}) (bool, interface{}) {
		st, in, out := state.(string), input.(onceIn), output.(onceOut)
		switch {
		case st != "": // cached: must return the cached value without invoking
			return !out.Err && out.Val == st && !out.Invoked, st
		case in.WillFail: // nothing cached and the callable fails: error, nothing cached
			return out.Err && out.Invoked, st
		default: // nothing cached: invoke, cache and return own fresh value
			return !out.Err && out.Invoked && out.Val == in.MyID, in.MyID
		}
	},
	Equal: func(a, b interface{}) bool { return a.(string) == b.(string) },
	DescribeOperation: func(input, output interface{}) string {
		in, out := input.(onceIn), output.(onceOut)
		return fmt.Sprintf("once(%s, fail=%v, id=%s) -> val=%s err=%v invoked=%v", in.Key, in.WillFail, in.MyID, out.Val, out.Err, out.Invoked)
	},
}

var c20proj *dawn.Project
var c20globals starlark.StringDict

func c20Setup(c *core.Ctx) error {
	if c20proj != nil {
		return nil
	}
	root := filepath.Join(c.Scratch, fmt.Sprintf("c20-%d", os.Getpid()))
	os.MkdirAll(root, 0o755)
	os.WriteFile(filepath.Join(root, "dawn.toml"), []byte("name = \"c\"\n"), 0o644)
	os.WriteFile(filepath.Join(root, "BUILD.dawn"), []byte("# empty\n"), 0o644)
	p, err := dawn.Load(root, &dawn.LoadOptions{})
	if err != nil {
		return err
	}
	c20proj = p
	_, c20globals = p.REPLEnv(io.Discard, &label.Label{Package: "//"})
	return nil
}

func c20Case(c *core.Ctx, id string) {
	if err := c20Setup(c); err != nil {
		c.Violation(id, "", "setup-load-error", map[string]any{"error": err.Error()})
		return
	}
	r := c.Rand(id)
	nclients := 2 + r.IntN(31)
	nkeys := 1 + r.IntN(4)
	// keys of every length class (1 byte ... 4 KiB), each call building its key string afresh
	keyLens := []int{2, 2, 2, 8, 63, 64, 65, 100, 4096}
	klen := make([]int, nkeys)
	for k := range klen {
		klen[k] = keyLens[r.IntN(len(keyLens))]
	}
	keyFor := func(k int) string {
		base := fmt.Sprintf("k%d", k)
		var b strings.Builder
		for b.Len() < klen[k] {
			b.WriteString(base)
			b.WriteByte('/')
		}
		return b.String()[:klen[k]] + fmt.Sprint(k)
	}
	failPct := 5 + r.IntN(36)
	total := 40 + r.IntN(160)
	if nclients > 10 {
		total = 30 + r.IntN(60) // many short histories beat few enormous ones: the check is exponential in the overlap
	}
	per := total/nclients + 1

	cacheV, err := starlark.Call(&starlark.Thread{Name: "mk"}, c20globals["Cache"], nil, nil)
	if err != nil {
		c.Violation(id, "", "cache-constructor-error", map[string]any{"error": err.Error()})
		return
	}
	onceV, _ := cacheV.(starlark.HasAttrs).Attr("once")
	// a second cache: a quarter of the calls reach the first one from inside a callable of the second (a callable may use
	// another cache; the thread then holds whatever the outer once holds)
	outerV, err := starlark.Call(&starlark.Thread{Name: "mk2"}, c20globals["Cache"], nil, nil)
	if err != nil {
		c.Violation(id, "", "cache-constructor-error", map[string]any{"error": err.Error()})
		return
	}
	outerOnce, _ := outerV.(starlark.HasAttrs).Attr("once")

	var clock atomic.Int64
	var mu sync.Mutex
	var ops []porcupine.Operation
	succPerKey := map[string]int{}
	valsPerKey := map[string]map[string]bool{}
	type plan struct {
		key  string
		fail bool
		y    int
		via  bool // through a callable of the outer cache
	}
	plans := make([][]plan, nclients)
	for cl := range plans {
		for k := 0; k < per; k++ {
			plans[cl] = append(plans[cl], plan{keyFor(r.IntN(nkeys)), r.IntN(100) < failPct, r.IntN(6), r.IntN(4) == 0})
		}
	}
	var wg sync.WaitGroup
	start := make(chan struct{})
	for cl := 0; cl < nclients; cl++ {
		wg.Add(1)
		go func(cl int) {
			defer wg.Done()
			thread := &starlark.Thread{Name: fmt.Sprintf("client%d", cl)}
			<-start
			for n, pl := range plans[cl] {
				myID := fmt.Sprintf("c%d-%d", cl, n)
				invoked := false
				var cs, ce int64
				callable := starlark.NewBuiltin("f", func(*starlark.Thread, *starlark.Builtin, starlark.Tuple, []starlark.Tuple) (starlark.Value, error) {
					invoked = true
					cs = clock.Add(1)
					defer func() { ce = clock.Add(1) }()
					for i := 0; i < pl.y; i++ {
						runtime.Gosched()
					}
					if pl.fail {
						return nil, fmt.Errorf("callable %s fails", myID)
					}
					return starlark.String(myID), nil
				})
				in := onceIn{Key: pl.key, WillFail: pl.fail, MyID: myID}
				t0 := clock.Add(1)
				var v starlark.Value
				var err error
				if pl.via {
					nested := starlark.NewBuiltin("nested", func(th *starlark.Thread, _ *starlark.Builtin, _ starlark.Tuple, _ []starlark.Tuple) (starlark.Value, error) {
						return starlark.Call(th, onceV, starlark.Tuple{starlark.String(pl.key), callable}, nil)
					})
					v, err = starlark.Call(thread, outerOnce, starlark.Tuple{starlark.String("via/" + myID), nested}, nil)
				} else {
					v, err = starlark.Call(thread, onceV, starlark.Tuple{starlark.String(pl.key), callable}, nil)
				}
				t1 := clock.Add(1)
				out := onceOut{Err: err != nil, Invoked: invoked}
				if err == nil {
					if s, ok := v.(starlark.String); ok {
						out.Val = string(s)
					} else {
						out.Val = "<" + v.Type() + ">"
					}
				}
				if invoked {
					// The operation cannot take effect before its callable (client code) started, and a
					// later caller can observe it only after the callable returned: narrowing the interval
					// to the callable's execution is sound and keeps the search small.
					t0, t1 = cs, ce
				}
				mu.Lock()
				ops = append(ops, porcupine.Operation{ClientId: cl, Input: in, Call: t0, Output: out, Return: t1})
				if invoked && !pl.fail {
					succPerKey[pl.key]++
				}
				if err == nil {
					if valsPerKey[pl.key] == nil {
						valsPerKey[pl.key] = map[string]bool{}
					}
					valsPerKey[pl.key][out.Val] = true
				}
				mu.Unlock()
				for i := 0; i < pl.y/2; i++ {
					runtime.Gosched()
				}
			}
		}(cl)
	}
	close(start)
	wg.Wait()

	res, info := porcupine.CheckOperationsVerbose(onceModel, ops, 12*time.Second)
	overlap := 0
	for i := range ops {
		for j := i + 1; j < len(ops) && j < i+40; j++ {
			if ops[i].Input.(onceIn).Key == ops[j].Input.(onceIn).Key && ops[i].Call < ops[j].Return && ops[j].Call < ops[i].Return {
				overlap++
			}
		}
	}
	key := ""
	if overlap > 0 {
		key = fmt.Sprintf("%s|%d|%d", id, len(ops), overlap)
	}
	c.Eval(key)
	c.Count("histories", 1)
	c.Count("operations", int64(len(ops)))
	c.Count("overlapping_same_key_pairs", int64(overlap))
	render := func() []string {
		var out []string
		for _, op := range ops {
			out = append(out, fmt.Sprintf("client %d [%d,%d] %s", op.ClientId, op.Call, op.Return, onceModel.DescribeOperation(op.Input, op.Output)))
		}
		if len(out) > 120 {
			out = out[:120]
		}
		return out
	}
	switch res {
	case porcupine.Illegal:
		_ = info
		c.Violation(id, "", "history-not-linearizable", map[string]any{"clients": nclients, "keys": nkeys, "history": render()})
	case porcupine.Unknown:
		c.Inconclusive("history " + id + ": linearizability checker timed out")
	}
	for k, n := range succPerKey {
		if n > 1 {
			c.Violation(id, "", "callable-invoked-successfully-more-than-once-for-a-key", map[string]any{"key": k, "successful_invocations": n, "history": render()})
		}
	}
	for k, vs := range valsPerKey {
		if len(vs) > 1 {
			c.Violation(id, "", "callers-of-one-key-received-different-values", map[string]any{"key": k, "values": len(vs), "history": render()})
		}
	}
	c.SampleKey("history", map[string]any{"case": id, "clients": nclients, "keys": nkeys, "fail_percent": failPct, "operations": len(ops), "first_operations": render()[:min(6, len(ops))]})
}

func runC20(c *core.Ctx) {
	c.SetRule("short histories (40-200 operations) of concurrent cache.once calls from 2-32 goroutines (own Starlark thread each) over 1-4 keys with 5-40% failing callables that yield inside, " +
		"on the real Cache builtin obtained from a loaded project; every call recorded at the client boundary (call/return from one logical clock), callables return values unique per invocation; " +
		"oracle: porcupine linearizability check against the sequential specification, partitioned by key, plus direct counters; plain and -race builds; " +
		"non-trivial = history with overlapping same-key calls; distinct = distinct (history, size, overlap count)")
	n := c.N(400, 20000)
	var ids []string
	for i := 0; i < n; i++ {
		if id := fmt.Sprintf("hist/%d", i); c.Want(id) {
			ids = append(ids, id)
		}
	}
	for _, race := range []bool{true, false} {
		bin, env := "", []string{}
		if race {
			if c.RaceBin == "" {
				continue
			}
			bin = c.RaceBin
			env = append(env, "GORACE=halt_on_error=0 log_path="+c.Scratch+"/race-C20")
		}
		c.RunSharded(ids, core.ShardOpts{Mode: "c20", Bin: bin, Workers: 4, CPUs: 4, Timeout: 5 * time.Minute, Env: env,
			Died: func(caseID string, r *core.ChildResult) {
				w := map[string]any{"race_build": race, "stderr": headLinesStr(r.Stderr, 40)}
				if r.TimedOut && r.FatalKind() == "" {
					if dumpHas(r.Stderr, "dawn.(*cache).once") {
						c.Violation(caseID, "", "once-hangs", w)
					} else {
						c.Inconclusive("case " + caseID + ": watchdog fired")
					}
					return
				}
				c.Violation(caseID, "", "process-died:"+r.FatalKind(), w)
			}})
	}
	// the same cache shared by the parallel targets of real builds
	var pids []string
	for i := 0; i < c.N(60, 2000); i++ {
		if id := fmt.Sprintf("proj/%d", i); c.Want(id) {
			pids = append(pids, id)
		}
	}
	for _, race := range []bool{true, false} {
		bin, env := "", []string{}
		if race {
			if c.RaceBin == "" {
				continue
			}
			bin = c.RaceBin
			env = append(env, "GORACE=halt_on_error=0 log_path="+c.Scratch+"/race-C20")
		}
		c.RunSharded(pids, core.ShardOpts{Mode: "c20proj", Bin: bin, Workers: 4, CPUs: 4, Timeout: 5 * time.Minute, Env: env})
	}
	c.Extra("race_detector_reports", countRaceReports(c, c.Scratch+"/race-C20", "C20"))
}

func dumpHas(dump, frame string) bool {
	for i := 0; i+len(frame) <= len(dump); i++ {
		if dump[i:i+len(frame)] == frame {
			return true
		}
	}
	return false
}

// ---- the cache inside a real parallel build -------------------------------------------------

func init() { registerCase("c20proj", c20ProjCase) }

func c20ProjCase(c *core.Ctx, id string) {
	r := c.Rand(id)
	dir := filepath.Join(c.Scratch, fmt.Sprintf("c20p-%d", os.Getpid()))
	os.RemoveAll(dir)
	defer os.RemoveAll(dir)
	s := pj.NewSession(dir)
	nkeys, ntg := 1+r.IntN(3), 8+r.IntN(40)
	var b strings.Builder
	b.WriteString("SHARED = Cache()\n")
	for k := 0; k < nkeys; k++ {
		fmt.Fprintf(&b, "def compute_k%d():\n    v.tick(\"once:k%d\")\n    v.pause(\"in-callable\")\n    return \"value-k%d\"\n", k, k, k)
	}
	var deps []string
	for i := 0; i < ntg; i++ {
		k := r.IntN(nkeys)
		fmt.Fprintf(&b, "@target()\ndef t%d(self):\n    v.body(\"//:t%d\", [SHARED.once(\"k%d\", compute_k%d)], [], \"\")\n", i, i, k, k)
		deps = append(deps, fmt.Sprintf("\":t%d\"", i))
	}
	fmt.Fprintf(&b, "@target(deps=[%s])\ndef all(self):\n    v.body(\"//:all\", [0], [], \"\")\n", strings.Join(deps, ", "))
	os.WriteFile(filepath.Join(s.Root, "dawn.toml"), []byte("name = \"c20\"\n"), 0o644)
	os.WriteFile(filepath.Join(s.Root, "BUILD.dawn"), []byte(b.String()), 0o644)
	pj.PauseHook = func(string) {
		for i := 0; i < 3; i++ {
			runtime.Gosched()
		}
	}
	pj.ResetTicks(s.Root)
	res := pj.Build(pj.BuildReq{Root: s.Root, Target: "//:all", Always: true})
	c.Eval(fmt.Sprintf("%s/%d/%d", id, nkeys, ntg))
	c.Count("parallel_project_builds", 1)
	if res.LoadErr != "" || res.RunErr != "" {
		c.Violation(id, "", "parallel-build-with-shared-cache-fails", map[string]any{"error": res.LoadErr + res.RunErr})
		return
	}
	for key, n := range pj.TicksFor(s.Root) {
		if strings.HasPrefix(key, "once:") && n != 1 {
			c.Violation(id, "", "callable-invoked-successfully-more-than-once-for-a-key", map[string]any{"key": key, "invocations": n, "targets": ntg, "where": "parallel targets of one build sharing a module-level Cache"})
		}
	}
}
