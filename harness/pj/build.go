package pj

import (
	"encoding/json"
	"fmt"
	"io/fs"
	"net/url"
	"os"
	"path/filepath"
	"sort"
	"strings"
	"sync"
	"time"

	dawn "github.com/pgavlin/dawn"
	"github.com/pgavlin/dawn/diff"
	"github.com/pgavlin/dawn/label"
	"go.starlark.net/starlark"
)

type Event struct {
	Seq      int      `json:"seq"`
	Kind     string   `json:"kind"`
	Label    string   `json:"label,omitempty"`
	Reason   string   `json:"reason,omitempty"`
	Err      string   `json:"err,omitempty"`
	Changed  bool     `json:"changed,omitempty"`
	Line     string   `json:"line,omitempty"`
	DiffKeys []string `json:"diff_keys,omitempty"` // env keys whose old/new values differ, recomputed from the delivered diff
	HasDiff  bool     `json:"has_diff,omitempty"`
}

// Recorder implements dawn.Events and appends everything under one mutex.
type Recorder struct {
	mu     sync.Mutex
	Events []Event
}

func (r *Recorder) add(e Event) {
	r.mu.Lock()
	e.Seq = len(r.Events) + 1
	r.Events = append(r.Events, e)
	r.mu.Unlock()
}

// Reset forgets the events recorded so far.
func (r *Recorder) Reset() {
	r.mu.Lock()
	r.Events = nil
	r.mu.Unlock()
}

func (r *Recorder) Snapshot() []Event {
	r.mu.Lock()
	defer r.mu.Unlock()
	return append([]Event(nil), r.Events...)
}

func errStr(err error) string {
	if err == nil {
		return ""
	}
	return err.Error()
}

func (r *Recorder) Print(l *label.Label, line string) {
	r.add(Event{Kind: "Print", Label: l.String(), Line: line})
}
func (r *Recorder) RequirementLoading(l *label.Label, version string)               {}
func (r *Recorder) RequirementLoaded(l *label.Label, version string)                {}
func (r *Recorder) RequirementLoadFailed(l *label.Label, version string, err error) {}
func (r *Recorder) ModuleLoading(l *label.Label) {
	r.add(Event{Kind: "ModuleLoading", Label: l.String()})
}
func (r *Recorder) ModuleLoaded(l *label.Label) {
	r.add(Event{Kind: "ModuleLoaded", Label: l.String()})
}
func (r *Recorder) ModuleLoadFailed(l *label.Label, err error) {
	r.add(Event{Kind: "ModuleLoadFailed", Label: l.String(), Err: errStr(err)})
}
func (r *Recorder) LoadDone(err error) { r.add(Event{Kind: "LoadDone", Err: errStr(err)}) }
func (r *Recorder) TargetUpToDate(l *label.Label) {
	r.add(Event{Kind: "TargetUpToDate", Label: l.String()})
}
func (r *Recorder) TargetEvaluating(l *label.Label, reason string, d diff.ValueDiff) {
	e := Event{Kind: "TargetEvaluating", Label: l.String(), Reason: reason}
	if d != nil {
		e.HasDiff = true
		e.DiffKeys = differingKeys(d)
	}
	r.add(e)
}
func (r *Recorder) TargetFailed(l *label.Label, err error) {
	r.add(Event{Kind: "TargetFailed", Label: l.String(), Err: errStr(err)})
}
func (r *Recorder) TargetSucceeded(l *label.Label, changed bool) {
	r.add(Event{Kind: "TargetSucceeded", Label: l.String(), Changed: changed})
}
func (r *Recorder) RunDone(err error)          { r.add(Event{Kind: "RunDone", Err: errStr(err)}) }
func (r *Recorder) FileChanged(l *label.Label) {}

// equalShared is Starlark equality for environments that share sub-values heavily (every helper function appears once,
// however many functions call it): a pair of dicts or lists that has been compared, or is being compared, is not compared
// again, so the cost is linear in the size of the graph and self-containing values terminate.
func equalShared(x, y starlark.Value, memo map[[2]starlark.Value]bool) bool {
	switch xv := x.(type) {
	case *starlark.Dict:
		yv, ok := y.(*starlark.Dict)
		if !ok || xv.Len() != yv.Len() {
			return false
		}
		k := [2]starlark.Value{xv, yv}
		if r, ok := memo[k]; ok {
			return r
		}
		memo[k] = true
		for _, kv := range xv.Items() {
			w, has, _ := yv.Get(kv[0])
			if !has || !equalShared(kv[1], w, memo) {
				memo[k] = false
				return false
			}
		}
		return true
	case *starlark.List:
		yv, ok := y.(*starlark.List)
		if !ok || xv.Len() != yv.Len() {
			return false
		}
		k := [2]starlark.Value{xv, yv}
		if r, ok := memo[k]; ok {
			return r
		}
		memo[k] = true
		for i := 0; i < xv.Len(); i++ {
			if !equalShared(xv.Index(i), yv.Index(i), memo) {
				memo[k] = false
				return false
			}
		}
		return true
	case starlark.Tuple:
		yv, ok := y.(starlark.Tuple)
		if !ok || len(xv) != len(yv) {
			return false
		}
		for i := range xv {
			if !equalShared(xv[i], yv[i], memo) {
				return false
			}
		}
		return true
	}
	eq, err := starlark.EqualDepth(x, y, 1000)
	return err == nil && eq
}

// differingKeys recomputes, from the Old()/New() dicts of the delivered diff, the set of
// top-level keys whose values differ (in the order of appearance in old then new).
func differingKeys(d diff.ValueDiff) []string {
	od, ok1 := d.Old().(*starlark.Dict)
	nd, ok2 := d.New().(*starlark.Dict)
	if !ok1 || !ok2 {
		return []string{"<not-dicts>"}
	}
	seen := map[string]bool{}
	var out []string
	for _, kv := range od.Items() {
		k := kv[0].String()
		nv, has, _ := nd.Get(kv[0])
		differs := !has
		if has {
			differs = !equalShared(kv[1], nv, map[[2]starlark.Value]bool{})
		}
		if differs && !seen[k] {
			seen[k] = true
			out = append(out, strings.Trim(k, `"`))
		}
	}
	for _, kv := range nd.Items() {
		k := kv[0].String()
		if _, has, _ := od.Get(kv[0]); !has && !seen[k] {
			seen[k] = true
			out = append(out, strings.Trim(k, `"`))
		}
	}
	sort.Strings(out)
	return out
}

type BuildReq struct {
	Root        string   `json:"root"`
	Target      string   `json:"target"` // "" = load only
	Always      bool     `json:"always,omitempty"`
	Dry         bool     `json:"dry,omitempty"`
	Args        []string `json:"args,omitempty"`
	PreferIndex bool     `json:"prefer_index,omitempty"`
	GC          bool     `json:"gc,omitempty"`          // run GC after load instead of building
	Twice       bool     `json:"twice,omitempty"`       // run the target twice on the same loaded project
	DryFirst    bool     `json:"dry_first,omitempty"`   // with Twice: the first run is a dry run, the second a real one
	Reload      bool     `json:"reload,omitempty"`      // Reload() between the two runs
	HashAround  bool     `json:"hash_around,omitempty"` // hash the whole tree after Load and again after Run/GC
	// WarmOverlay (a directory) makes this a build on a long-lived project, the way `dawn watch` builds: the tree at Root
	// is first built completely (always) on the freshly loaded Project, then the files of WarmOverlay replace the tree's
	// (the edit), the Project is Reload()ed and only then is the requested run made. Crash points are armed for that
	// last run only; WarmLog receives a marker line when the warm-up is over.
	WarmOverlay string `json:"warm_overlay,omitempty"`
	WarmLog     string `json:"warm_log,omitempty"`
}

type BuildRes struct {
	LoadErr string   `json:"load_err,omitempty"`
	RunErr  string   `json:"run_err,omitempty"`
	Run2Err string   `json:"run2_err,omitempty"`
	GCErr   string   `json:"gc_err,omitempty"`
	Events  []Event  `json:"events"`
	// DryEvents: the events of the dry run that preceded the real one on the same Project (Engine.Build with DryFirst)
	DryEvents []Event `json:"dry_events,omitempty"`
	Targets []string `json:"targets,omitempty"`
	Flags   []string `json:"flags,omitempty"`
	Panic   string   `json:"panic,omitempty"`
	// Changed lists what Run (or GC) changed on disk, when HashAround was requested.
	Changed []string `json:"changed,omitempty"`
}

// Build runs a real dawn.Load (+Run / GC) in this process.
func Build(req BuildReq) (res BuildRes) {
	rec := &Recorder{}
	defer func() { res.Events = rec.Snapshot() }()
	if req.WarmOverlay != "" {
		Disarmed.Store(true) // the first load and the warm-up build are not part of the interrupted build
	}
	proj, err := dawn.Load(req.Root, &dawn.LoadOptions{
		Args:        req.Args,
		Events:      rec,
		Builtins:    starlark.StringDict{"v": Module()},
		PreferIndex: req.PreferIndex,
	})
	if err != nil {
		res.LoadErr = err.Error()
		return
	}
	for _, t := range proj.Targets() {
		res.Targets = append(res.Targets, t.Label().String())
	}
	for _, f := range proj.Flags() {
		res.Flags = append(res.Flags, fmt.Sprintf("%s=%v", f.Name, f.Value))
	}
	var before map[string]string
	if req.HashAround {
		before = TreeHash(req.Root, nil)
		defer func() { res.Changed = DiffMaps(before, TreeHash(req.Root, nil)) }()
	}
	if req.GC {
		if err := proj.GC(); err != nil {
			res.GCErr = err.Error()
		}
		return
	}
	if req.Target == "" {
		return
	}
	l, err := label.Parse(req.Target)
	if err != nil {
		res.RunErr = "parse: " + err.Error()
		return
	}
	// a plain build passes no options at all, as Project.Watch does
	var opts *dawn.RunOptions
	if req.Always || req.Dry {
		opts = &dawn.RunOptions{Always: req.Always, DryRun: req.Dry}
	}
	if req.WarmOverlay != "" {
		Disarmed.Store(true)
		if err := proj.Run(l, &dawn.RunOptions{Always: true}); err != nil {
			res.RunErr = "warm-up: " + err.Error()
			return
		}
		if err := overlayTree(req.WarmOverlay, req.Root); err != nil {
			res.RunErr = "overlay: " + err.Error()
			return
		}
		if f, err := os.OpenFile(req.WarmLog, os.O_WRONLY|os.O_APPEND|os.O_CREATE, 0o644); err == nil {
			fmt.Fprintf(f, "W warm-up-done\n")
			f.Close()
		}
		rec.Reset()
		if err := proj.Reload(); err != nil {
			res.LoadErr = "reload: " + err.Error()
			return
		}
		Disarmed.Store(false)
	}
	first := opts
	if req.Twice && req.DryFirst {
		first = &dawn.RunOptions{Always: req.Always, DryRun: true}
	}
	if err := proj.Run(l, first); err != nil {
		res.RunErr = err.Error()
		settle(rec)
	}
	if req.Twice {
		if req.Reload {
			if err := proj.Reload(); err != nil {
				res.Run2Err = "reload: " + err.Error()
				return
			}
		}
		rec.add(Event{Kind: "SecondRun"})
		if err := proj.Run(l, opts); err != nil {
			res.Run2Err = err.Error()
			settle(rec)
		}
	}
	return
}

// Record is a persisted target record.
type Record struct {
	Doc          string            `json:"doc,omitempty"`
	Dependencies map[string]string `json:"dependencies,omitempty"`
	Stamp        string            `json:"stamp,omitempty"`
	Rerun        bool              `json:"rerun,omitempty"`
	Raw          []byte            `json:"-"`
}

// Records reads every record file under .dawn/build (targets and sources), keyed by the
// path relative to .dawn/build.
func Records(root string) map[string]*Record {
	out := map[string]*Record{}
	work := filepath.Join(root, ".dawn", "build")
	filepath.WalkDir(work, func(p string, d fs.DirEntry, err error) error {
		if err != nil || d.IsDir() {
			return nil
		}
		rel, _ := filepath.Rel(work, p)
		if rel == "index.json" || strings.HasPrefix(rel, "temp") {
			return nil
		}
		b, err := os.ReadFile(p)
		if err != nil {
			return nil
		}
		r := &Record{Raw: b}
		json.Unmarshal(b, r)
		out[rel] = r
		return nil
	})
	return out
}

// RecordPath is where dawn keeps the record of a target label (mirror of targetInfoPath).
func RecordPath(root, lbl string) string {
	l, err := label.Parse(lbl)
	if err != nil {
		return ""
	}
	kind := l.Kind
	if kind == "" {
		kind = "target"
	}
	name := l.Name
	if name == "" {
		name = "BUILD.dawn"
	}
	return filepath.Join(root, ".dawn", "build", kind+"s", url.PathEscape(l.Package[2:]+"/"+name))
}

// TreeHash hashes every file under dir (names and contents), optionally skipping a sub-path.
func TreeHash(dir string, skip func(rel string) bool) map[string]string {
	out := map[string]string{}
	filepath.WalkDir(dir, func(p string, d fs.DirEntry, err error) error {
		if err != nil {
			return nil
		}
		rel, _ := filepath.Rel(dir, p)
		if skip != nil && skip(rel) {
			if d.IsDir() {
				return fs.SkipDir
			}
			return nil
		}
		if d.IsDir() {
			out[rel+"/"] = "dir"
			return nil
		}
		out[rel] = digestInput(p)
		return nil
	})
	return out
}

func DiffMaps(a, b map[string]string) []string {
	var out []string
	for k, v := range a {
		if w, ok := b[k]; !ok {
			out = append(out, "removed "+k)
		} else if w != v {
			out = append(out, "changed "+k)
		}
	}
	for k := range b {
		if _, ok := a[k]; !ok {
			out = append(out, "added "+k)
		}
	}
	sort.Strings(out)
	return out
}

// settle waits until no further event arrives: when a build fails with a cyclic-dependency
// error Run returns while other targets are still finishing.
func settle(rec *Recorder) {
	last, same := -1, 0
	for i := 0; i < 1000 && same < 5; i++ {
		time.Sleep(5 * time.Millisecond)
		rec.mu.Lock()
		n := len(rec.Events)
		rec.mu.Unlock()
		if n == last {
			same++
		} else {
			last, same = n, 0
		}
	}
}

// Live is one dawn.Project kept alive across builds, the way `dawn watch` works: every build is Reload() followed by
// Run() on the same Project value, in this process. A change of the command-line flags opens a new Project.
type Live struct {
	proj *dawn.Project
	rec  *Recorder
	args string
	// Reloads counts builds served by Reload() of the live project (as opposed to a fresh Load).
	Reloads int
}

func (lv *Live) Build(req BuildReq) (res BuildRes) {
	args := strings.Join(req.Args, "\x00")
	if lv.proj == nil || lv.args != args {
		lv.rec = &Recorder{}
		proj, err := dawn.Load(req.Root, &dawn.LoadOptions{Args: req.Args, Events: lv.rec, Builtins: starlark.StringDict{"v": Module()}})
		if err != nil {
			res.LoadErr = err.Error()
			res.Events = lv.rec.Snapshot()
			lv.proj = nil
			return
		}
		lv.proj, lv.args = proj, args
	} else {
		lv.rec.Reset()
		if err := lv.proj.Reload(); err != nil {
			res.LoadErr = "reload: " + err.Error()
			res.Events = lv.rec.Snapshot()
			lv.proj = nil
			return
		}
		lv.Reloads++
	}
	defer func() { res.Events = lv.rec.Snapshot() }()
	for _, t := range lv.proj.Targets() {
		res.Targets = append(res.Targets, t.Label().String())
	}
	for _, f := range lv.proj.Flags() {
		res.Flags = append(res.Flags, fmt.Sprintf("%s=%v", f.Name, f.Value))
	}
	if req.Target == "" {
		return
	}
	l, err := label.Parse(req.Target)
	if err != nil {
		res.RunErr = "parse: " + err.Error()
		return
	}
	// like Project.Watch, a plain build passes no options at all
	var ropts *dawn.RunOptions
	if req.Always || req.Dry {
		ropts = &dawn.RunOptions{Always: req.Always, DryRun: req.Dry}
	}
	if err := lv.proj.Run(l, ropts); err != nil {
		res.RunErr = err.Error()
		settle(lv.rec)
	}
	return
}

// overlayTree makes the project files of dst those of src (everything but the build state under .dawn): files are copied
// over, files that src does not have are removed.
func overlayTree(src, dst string) error {
	keep := map[string]bool{}
	err := filepath.Walk(src, func(p string, info os.FileInfo, err error) error {
		if err != nil {
			return err
		}
		rel, _ := filepath.Rel(src, p)
		if rel == ".dawn" {
			return filepath.SkipDir
		}
		keep[rel] = true
		target := filepath.Join(dst, rel)
		if info.IsDir() {
			return os.MkdirAll(target, 0o755)
		}
		b, err := os.ReadFile(p)
		if err != nil {
			return err
		}
		if old, err := os.ReadFile(target); err == nil && string(old) == string(b) {
			return nil
		}
		return os.WriteFile(target, b, info.Mode())
	})
	if err != nil {
		return err
	}
	var remove []string
	filepath.Walk(dst, func(p string, info os.FileInfo, err error) error {
		if err != nil {
			return nil
		}
		rel, _ := filepath.Rel(dst, p)
		if rel == ".dawn" {
			return filepath.SkipDir
		}
		if !keep[rel] {
			remove = append(remove, p)
		}
		return nil
	})
	for i := len(remove) - 1; i >= 0; i-- {
		os.RemoveAll(remove[i])
	}
	return nil
}
