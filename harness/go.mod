module github.com/pgavlin/dawn/verifharness

go 1.23.0

require (
	github.com/anishathalye/porcupine v1.3.0
	github.com/pgavlin/dawn v0.0.0
	go.starlark.net v0.0.0-20240329153429-e6e8e7ce1b7a
	golang.org/x/mod v0.17.0
)

require golang.org/x/sys v0.28.0 // indirect

replace github.com/pgavlin/dawn => /repo

replace go.starlark.net => github.com/pgavlin/starlark-go v0.0.0-20250130180140-a8830bbe58fc
