package main

import (
	"errors"
	"fmt"
	"math/rand/v2"
	"os"
	"path/filepath"
	"runtime"
	"strconv"
	"strings"
	"sync"
	"sync/atomic"
	"time"

	"github.com/pgavlin/dawn/runner"
	"github.com/pgavlin/dawn/verifharness/core"
	"github.com/pgavlin/dawn/verifharness/pj"
)

func init() {
	register("C04", "exploration", func(c *core.Ctx) { runRunner(c, "C04") })
	register("C05", "exploration", func(c *core.Ctx) { runRunner(c, "C05") })
	register("C09", "exploration", func(c *core.Ctx) { runRunner(c, "C09") })
	registerCase("runner", runnerCase)
}

// ---- graphs -------------------------------------------------------------------------------

type hGraph struct {
	n       int
	adj     [][]int
	unknown map[int]bool // LoadTarget fails for these
	fails   map[int]bool // Evaluate fails for these
	split   bool         // Evaluate asks for its dependencies in several EvaluateTargets calls
	dup     bool         // one EvaluateTargets call may name a dependency twice (adjacent and non-adjacent repeats)
	spin    int          // busy work inside Evaluate (to make targets overlap)
	desc    string
	seq     int // case sequence number, part of every label so that late hook events are attributed correctly
}

func (g *hGraph) label(i int) string { return "c" + strconv.Itoa(g.seq) + "n" + strconv.Itoa(i) }

// nodeOf parses a label back into (case sequence number, node).
func nodeOf(label string) (seq, node int) {
	k := strings.IndexByte(label, 'n')
	if k < 2 || label[0] != 'c' {
		return -1, -1
	}
	seq, _ = strconv.Atoi(label[1:k])
	node, _ = strconv.Atoi(label[k+1:])
	return
}

// cyclicReachable: does the subgraph reachable from node 0 (not descending below unknown or
// through nothing else) contain a cycle? Independent of dawn: iterative colouring DFS.
func (g *hGraph) cyclicReachable() bool {
	color := make([]int, g.n)
	var dfs func(u int) bool
	dfs = func(u int) bool {
		color[u] = 1
		if !g.unknown[u] {
			for _, v := range g.adj[u] {
				if color[v] == 1 {
					return true
				}
				if color[v] == 0 && dfs(v) {
					return true
				}
			}
		}
		color[u] = 2
		return false
	}
	return dfs(0)
}

func (g *hGraph) paths() float64 {
	memo := make([]float64, g.n)
	done := make([]bool, g.n)
	var f func(u int) float64
	f = func(u int) float64 {
		if done[u] {
			return memo[u]
		}
		done[u] = true
		s := 1.0
		for _, v := range g.adj[u] {
			s += f(v)
		}
		memo[u] = s
		return s
	}
	return f(0)
}

// graphFor builds the graph named by a case id (deterministic in id and seed).
func graphFor(seed int64, id string) *hGraph {
	parts := strings.Split(id, "/")
	g := &hGraph{unknown: map[int]bool{}, fails: map[int]bool{}}
	switch parts[0] {
	case "exh": // exh/<n>/<mask>: adjacency matrix bits, self-loops included
		n, _ := strconv.Atoi(parts[1])
		mask, _ := strconv.ParseUint(parts[2], 10, 64)
		g.n = n
		g.adj = make([][]int, n)
		for i := 0; i < n; i++ {
			for j := 0; j < n; j++ {
				if mask>>(uint(i*n+j))&1 == 1 {
					g.adj[i] = append(g.adj[i], j)
				}
			}
		}
		g.desc = fmt.Sprintf("all-digraphs n=%d mask=%d", n, mask)
	case "named":
		switch parts[1] {
		case "overlapping-self-loops": // the graph of finding F14
			g.n = 4
			g.adj = [][]int{{0, 1, 3}, {0, 1, 2, 3}, {0, 2, 3}, {0, 3}}
		case "two-cycle":
			g.n = 2
			g.adj = [][]int{{1}, {0}}
		case "self-loop-on-leaf":
			g.n = 3
			g.adj = [][]int{{1, 2}, {2}, {2}}
		case "cycle-not-containing-root":
			g.n = 4
			g.adj = [][]int{{1}, {2}, {3}, {1}}
		case "wide-diamond-mesh": // exponentially many root->leaf paths
			g.n = 2 + 2*14
			g.adj = make([][]int, g.n)
			for l := 0; l < 14; l++ {
				a, b := 1+2*l, 2+2*l
				var next []int
				if l == 13 {
					next = []int{g.n - 1}
				} else {
					next = []int{a + 2, b + 2}
				}
				g.adj[a], g.adj[b] = next, next
			}
			g.adj[0] = []int{1, 2}
		}
		g.desc = parts[1]
	default: // rnd/<kind>/<index>
		r := core.RandFor(seed, "runner/"+parts[0]+"/"+parts[1]+"/"+parts[2])
		buildRandom(g, parts[1], r)
	}
	return g
}

func buildRandom(g *hGraph, kind string, r *rand.Rand) {
	switch kind {
	case "dag", "dagfail":
		g.n = 5 + r.IntN(56)
		g.adj = make([][]int, g.n)
		layers := 2 + r.IntN(6)
		layerOf := make([]int, g.n)
		for i := 1; i < g.n; i++ {
			layerOf[i] = 1 + r.IntN(layers)
		}
		for i := 0; i < g.n; i++ {
			fan := 1 + r.IntN(8)
			for k := 0; k < fan; k++ {
				j := 1 + r.IntN(g.n-1)
				if layerOf[j] > layerOf[i] && !containsInt(g.adj[i], j) {
					g.adj[i] = append(g.adj[i], j)
				}
			}
		}
		// shared subgraph: everybody in layer 1 depends on one deep node
		deep := -1
		for i := 1; i < g.n; i++ {
			if layerOf[i] == layers {
				deep = i
			}
		}
		for i := 1; i < g.n && deep > 0; i++ {
			if layerOf[i] < layers && r.IntN(3) == 0 && !containsInt(g.adj[i], deep) {
				g.adj[i] = append(g.adj[i], deep)
			}
		}
		if kind == "dagfail" {
			for k := r.IntN(3); k > 0; k-- {
				g.fails[1+r.IntN(g.n-1)] = true
			}
			for k := r.IntN(2); k > 0; k-- {
				g.unknown[1+r.IntN(g.n-1)] = true
			}
		}
		// keep the number of root->leaf paths bounded (a walk that has no visited set is exponential)
		for g.paths() > 1e5 {
			i := r.IntN(g.n)
			if len(g.adj[i]) > 1 {
				g.adj[i] = g.adj[i][:len(g.adj[i])-1]
			}
		}
		g.split = r.IntN(3) == 0
		g.dup = g.n%3 == 1 // derived, not drawn: keeps the PRNG stream of earlier harness versions
	case "chain":
		g.n = 2 + r.IntN(40)
		g.adj = make([][]int, g.n)
		for i := 0; i+1 < g.n; i++ {
			g.adj[i] = []int{i + 1}
		}
	case "fan":
		g.n = 2 + 8*(1+r.IntN(8))
		g.adj = make([][]int, g.n)
		for i := 1; i < g.n; i++ {
			g.adj[0] = append(g.adj[0], i)
			if i+1 < g.n && r.IntN(4) == 0 {
				g.adj[i] = []int{g.n - 1}
			}
		}
		g.adj[g.n-1] = nil
		g.spin = 200 + r.IntN(3000)
	case "cyc":
		g.n = 3 + r.IntN(38)
		g.adj = make([][]int, g.n)
		for i := 0; i < g.n; i++ {
			for k := r.IntN(4); k > 0; k-- {
				j := r.IntN(g.n)
				if j > i && !containsInt(g.adj[i], j) {
					g.adj[i] = append(g.adj[i], j)
				}
			}
		}
		// planted back edges: overlapping cycles, cycles away from the root, self-loops on leaves
		for k := 1 + r.IntN(4); k > 0; k-- {
			i, j := r.IntN(g.n), r.IntN(g.n)
			if i < j {
				i, j = j, i
			}
			if r.IntN(5) == 0 {
				j = i // self-loop
			}
			if r.IntN(3) != 0 && j == 0 && g.n > 2 {
				j = 1 + r.IntN(g.n-1) // prefer cycles that do not contain the root
				if j > i {
					i, j = j, i
				}
			}
			if !containsInt(g.adj[i], j) {
				g.adj[i] = append(g.adj[i], j)
			}
		}
		for g.paths() > 1e5 {
			i := r.IntN(g.n)
			if len(g.adj[i]) > 1 {
				g.adj[i] = g.adj[i][:len(g.adj[i])-1]
			}
		}
	}
	g.desc = fmt.Sprintf("%s n=%d", kind, g.n)
}

func containsInt(xs []int, x int) bool {
	for _, y := range xs {
		if y == x {
			return true
		}
	}
	return false
}

// ---- harness targets ----------------------------------------------------------------------

type runState struct {
	g     *hGraph
	limit int
	r     *rand.Rand
	rmu   sync.Mutex

	loads, evals []atomic.Int32
	done         []atomic.Bool
	loadedObj    []atomic.Pointer[hTarget]
	retErr       []atomic.Pointer[error] // the error value Evaluate/LoadTarget returned
	sawCyc       atomic.Int32            // number of targets handed a CyclicDependencyError
	exec         atomic.Int32            // targets executing (loaded/evaluating, not waiting)
	maxExec      atomic.Int32
	reached      atomic.Int32 // how often exec reached the limit

	mu    sync.Mutex
	probs []string

	// hook shadows
	gateCap, gateMin, gateMax atomic.Int32
	enters, exits, saturated  atomic.Int32
	live                      atomic.Int32 // run goroutines begun and not ended
	begun                     atomic.Int32
	requested, ended          []atomic.Bool // labels asked for through EvaluateTargets (plus the root); run goroutine finished
	sig                       uint64
	sigMu                     sync.Mutex
	yields                    atomic.Int64
	heavy                     bool
}

func (s *runState) problem(format string, args ...any) {
	s.mu.Lock()
	if len(s.probs) < 8 {
		s.probs = append(s.probs, fmt.Sprintf(format, args...))
	}
	s.mu.Unlock()
}

func (s *runState) rnd(n int) int {
	s.rmu.Lock()
	defer s.rmu.Unlock()
	return s.r.IntN(n)
}

// yield perturbs the schedule without timers (timers would disable the runtime's deadlock detector).
func (s *runState) yield(point, label string) {
	s.yields.Add(1)
	s.sigMu.Lock()
	s.sig = s.sig*1099511628211 ^ hashStr(point+label)
	s.sigMu.Unlock()
	k := s.rnd(8)
	if s.heavy && (point == "eval.before-publish" || point == "eval.after-publish") {
		k += s.rnd(12)
		if s.rnd(4) == 0 {
			k += 20 + s.rnd(40) // park here for a long while: widens the publish/check/withdraw window
		}
	}
	switch {
	case k < 3:
	case k < 6:
		runtime.Gosched()
	default:
		for i := 0; i < k-4; i++ {
			runtime.Gosched()
		}
		x := 0
		for i := 0; i < 200*k; i++ {
			x += i
		}
		_ = x
	}
}

func (s *runState) incExec() {
	v := s.exec.Add(1)
	for {
		m := s.maxExec.Load()
		if v <= m || s.maxExec.CompareAndSwap(m, v) {
			break
		}
	}
	if int(v) == s.limit {
		s.reached.Add(1)
	}
}

type hTargets struct{ s *runState }

type hTarget struct {
	s *runState
	i int
}

type unknownErr struct{ label string }

func (e *unknownErr) Error() string { return "unknown target " + e.label }

func (t hTargets) LoadTarget(label string) (runner.Target, error) {
	s := t.s
	_, i := nodeOf(label)
	s.incExec()
	if n := s.loads[i].Add(1); n > 1 {
		s.problem("C04: LoadTarget(%s) called %d times in one build", label, n)
	}
	s.yield("harness.load", label)
	if s.g.unknown[i] {
		var err error = &unknownErr{label}
		s.retErr[i].Store(&err)
		s.done[i].Store(true)
		s.exec.Add(-1)
		return nil, err
	}
	ht := &hTarget{s: s, i: i}
	s.loadedObj[i].Store(ht)
	return ht, nil
}

func (t *hTarget) Evaluate(engine runner.Engine) (err error) {
	s, g := t.s, t.s.g
	label := g.label(t.i)
	if n := s.evals[t.i].Add(1); n > 1 {
		s.problem("C04: Evaluate(%s) entered %d times in one build", label, n)
	}
	defer func() {
		e := err
		s.retErr[t.i].Store(&e)
		s.done[t.i].Store(true)
		s.exec.Add(-1)
	}()
	deps := g.adj[t.i]
	groups := [][]int{deps}
	if g.split && len(deps) > 1 {
		k := 1 + s.rnd(len(deps)-1)
		groups = [][]int{deps[:k], deps[k:], deps[:1]}
	}
	var failed error
	for _, grp := range groups {
		if g.dup && len(grp) > 0 {
			// every slot of a repeated label must carry that dependency's actual outcome
			rep := make([]int, 0, 2*len(grp)+1)
			for _, d := range grp {
				rep = append(rep, d)
				if s.rnd(3) == 0 {
					rep = append(rep, d)
				}
			}
			if s.rnd(2) == 0 {
				rep = append(rep, grp[0])
			}
			grp = rep
		}
		labels := make([]string, len(grp))
		for k, d := range grp {
			labels[k] = g.label(d)
			s.requested[d].Store(true)
		}
		s.yield("harness.before-evaluate-targets", label)
		s.exec.Add(-1)
		results := engine.EvaluateTargets(labels...)
		s.incExec()
		if len(results) != len(labels) {
			s.problem("C04: EvaluateTargets returned %d results for %d labels", len(results), len(labels))
			continue
		}
		for k, res := range results {
			d := grp[k]
			var cyc runner.CyclicDependencyError
			if res.Error != nil && errors.As(res.Error, &cyc) {
				s.sawCyc.Add(1)
				failed = res.Error
				continue
			}
			if !s.done[d].Load() {
				s.problem("C04: %s continued past its dependency request before %s had finished", label, g.label(d))
				continue
			}
			want := *s.retErr[d].Load()
			if res.Error != want {
				s.problem("C04: %s was handed outcome %v for %s, whose actual outcome is %v", label, res.Error, g.label(d), want)
			}
			if obj := s.loadedObj[d].Load(); obj != nil && res.Target != runner.Target(obj) {
				s.problem("C04: %s was handed a different target object for %s than LoadTarget returned", label, g.label(d))
			}
			if res.Error != nil {
				failed = res.Error
			}
		}
	}
	if g.spin > 0 {
		x := 0
		for i := 0; i < g.spin*50; i++ {
			x += i
			if i%2000 == 0 {
				runtime.Gosched()
			}
		}
		_ = x
	}
	s.yield("harness.evaluate-exit", label)
	if failed != nil {
		return fmt.Errorf("%s: dependency failed: %w", label, failed)
	}
	if g.fails[t.i] {
		return fmt.Errorf("%s: fails on request", label)
	}
	return nil
}

// expectedOutcome computes, independently of dawn, whether the build of node 0 must fail for an
// acyclic graph: it fails iff a failing or unknown node is reachable.
func (g *hGraph) acyclicMustFail() bool {
	seen := make([]bool, g.n)
	var f func(u int) bool
	f = func(u int) bool {
		if seen[u] {
			return false
		}
		seen[u] = true
		if g.unknown[u] || g.fails[u] {
			return true
		}
		for _, v := range g.adj[u] {
			if f(v) {
				return true
			}
		}
		return false
	}
	return f(0)
}

var currentRun atomic.Pointer[runState]
var runStates sync.Map // case sequence number -> *runState
var caseSeq int

func stateOf(label string) (*runState, int) {
	seq, node := nodeOf(label)
	if v, ok := runStates.Load(seq); ok {
		return v.(*runState), node
	}
	return nil, -1
}

func installRunnerHooks() {
	runner.Verif = &runner.VerifHooks{
		Gate: func(capacity, delta int) {
			s := currentRun.Load()
			if s == nil {
				return
			}
			if delta < 0 {
				s.enters.Add(1)
			} else {
				s.exits.Add(1)
			}
			c := int32(capacity)
			if c < s.gateMin.Load() {
				s.gateMin.Store(c)
			}
			if c > s.gateMax.Load() {
				s.gateMax.Store(c)
			}
			if c == 0 {
				s.saturated.Add(1)
			}
			s.gateCap.Store(c)
		},
		Run: func(label string, begin bool) {
			s, node := stateOf(label)
			if s == nil {
				return
			}
			if begin {
				s.live.Add(1)
				s.begun.Add(1)
			} else {
				s.live.Add(-1)
				s.ended[node].Store(true)
			}
		},
		Yield: func(point, label string) {
			if s, _ := stateOf(label); s != nil {
				s.yield(point, label)
			}
		},
	}
}

// runnerCase: one build of one graph under one schedule seed. id = <graph id>/s<k>.
func runnerCase(c *core.Ctx, id string) {
	installRunnerHooks()
	cut := strings.LastIndex(id, "/s")
	gid, sched := id[:cut], id[cut+2:]
	g := graphFor(c.Seed, gid)
	caseSeq++
	g.seq = caseSeq
	limit := runtime.NumCPU()
	if want := os.Getenv("VERIF_LIMIT"); want != "" && want != strconv.Itoa(limit) {
		c.Inconclusive(fmt.Sprintf("runtime.NumCPU()=%d but the parent asked for %s", limit, want))
		return
	}
	s := &runState{g: g, limit: limit, r: core.RandFor(c.Seed, "sched/"+id)}
	s.heavy = strings.HasSuffix(sched, "h")
	s.loads = make([]atomic.Int32, g.n)
	s.evals = make([]atomic.Int32, g.n)
	s.done = make([]atomic.Bool, g.n)
	s.loadedObj = make([]atomic.Pointer[hTarget], g.n)
	s.retErr = make([]atomic.Pointer[error], g.n)
	s.requested = make([]atomic.Bool, g.n)
	s.ended = make([]atomic.Bool, g.n)
	s.requested[0].Store(true)
	runStates.Store(g.seq, s)
	s.gateMin.Store(int32(limit))
	s.gateCap.Store(int32(limit))
	currentRun.Store(s)

	err := runner.Run(hTargets{s}, g.label(0))

	// quiescence: every target goroutine that began must end (no timers: spin with Gosched)
	quiescent := func() bool {
		for i := range s.requested {
			if s.requested[i].Load() && !s.ended[i].Load() {
				return false
			}
		}
		return s.live.Load() == 0
	}
	spins := 0
	for !quiescent() && spins < 300_000_000 {
		runtime.Gosched()
		spins++
	}
	currentRun.Store(nil)
	orphans := 0
	for i := range s.requested {
		if s.requested[i].Load() && !s.ended[i].Load() {
			orphans++
		}
	}
	if orphans == 0 {
		runStates.Delete(g.seq)
	}
	cyclic := g.cyclicReachable()
	prob := func(format string, args ...any) { s.problem(format, args...) }
	if orphans != 0 {
		prob("C05: %d requested targets never finished after Run returned", orphans)
	}
	// C04: result identity
	if p := s.retErr[0].Load(); p != nil {
		if err != *p {
			prob("C04: Run returned %v but the requested target's outcome is %v", err, *p)
		}
	} else {
		prob("C04: Run returned before the requested target finished")
	}
	if !cyclic {
		if (err != nil) != g.acyclicMustFail() {
			prob("C04: acyclic graph: Run error = %v, expected failure = %v", err, g.acyclicMustFail())
		}
		if s.sawCyc.Load() > 0 {
			prob("C05: cyclic-dependency error reported for an acyclic graph")
		}
	} else {
		if err == nil {
			prob("C05: cyclic graph but the build succeeded")
		}
		if s.sawCyc.Load() == 0 {
			prob("C05: cyclic graph but no target was handed a cyclic-dependency error")
		}
	}
	// C09: limit and slot conservation
	if int(s.maxExec.Load()) > limit {
		prob("C09: %d targets executing at once with a limit of %d", s.maxExec.Load(), limit)
	}
	if s.gateMin.Load() < 0 || int(s.gateMax.Load()) > limit {
		prob("C09: gate capacity left [0,%d]: min %d max %d", limit, s.gateMin.Load(), s.gateMax.Load())
	}
	if orphans == 0 && (s.enters.Load() != s.exits.Load() || int(s.gateCap.Load()) != limit) {
		prob("C09: slots not conserved: %d acquisitions, %d releases, final capacity %d of %d", s.enters.Load(), s.exits.Load(), s.gateCap.Load(), limit)
	}

	key := ""
	if len(g.adj[0]) > 0 {
		key = fmt.Sprintf("%s|%d|%x", gid, limit, s.sig)
	}
	c.Eval(key)
	c.Count("builds", 1)
	c.Count("targets_run", int64(s.begun.Load()))
	c.Count("yield_points_hit", s.yields.Load())
	c.Count("gate_saturated", int64(s.saturated.Load()))
	c.Count("executing_reached_limit", int64(s.reached.Load()))
	c.Max(fmt.Sprintf("max_executing_at_limit_%d", limit), int64(s.maxExec.Load()))
	if cyclic {
		c.Count("cyclic_graphs", 1)
		c.Count("cyclic_errors_handed_out", int64(s.sawCyc.Load()))
	} else {
		c.Count("acyclic_graphs", 1)
	}
	if err != nil {
		c.Count("failed_builds", 1)
	}
	s.mu.Lock()
	probs := append([]string{}, s.probs...)
	s.mu.Unlock()
	for _, p := range probs {
		if p[:3] != c.ID {
			// belongs to a sibling property, whose own check runs its own workload
			c.Count("problems_of_sibling_property:"+p[:3], 1)
			continue
		}
		c.Violation(id, "", p[:3], map[string]any{"problem": p, "graph": g.desc, "adjacency": g.adj, "unknown": keysInt(g.unknown), "failing": keysInt(g.fails), "limit": limit, "run_error": fmt.Sprint(err)})
	}
	c.SampleKey(strings.Split(gid, "/")[0]+"-"+strings.Split(gid+"//", "/")[1], map[string]any{"case": id, "graph": g.desc, "adjacency": g.adj, "limit": limit, "cyclic": cyclic, "run_error": fmt.Sprint(err), "trace_signature": fmt.Sprintf("%x", s.sig)})
}

func keysInt(m map[int]bool) []int {
	var out []int
	for k := range m {
		out = append(out, k)
	}
	return out
}

// ---- parent -------------------------------------------------------------------------------

func runRunner(c *core.Ctx, which string) {
	var ids []string
	scheds := func(gid string, n int, heavy bool) {
		for k := 0; k < n; k++ {
			s := fmt.Sprintf("%s/s%d", gid, k)
			if heavy && k%2 == 1 {
				s += "h"
			}
			ids = append(ids, s)
		}
	}
	limits := []int{1, 2, 3, 4, 8, 16}
	switch which {
	case "C04":
		c.SetRule("generated acyclic graphs (layered meshes with shared subgraphs, chains, fans, failing and unknown targets, dependency requests split over several calls, one call naming a dependency more than once), 5-60 nodes, " +
			"x limits {1,2,3,4,8,16} (CPU affinity) x PRNG schedules (yields at the runner's suspension points and at the harness boundary), plain and -race builds; " +
			"oracle = assertions in the harness Targets/Target at the client boundary (load/evaluate counts, dependency finished before the dependent continues, outcome identity by pointer, Run's result); " +
			"non-trivial = root has dependencies; distinct = distinct (graph, limit, trace signature)")
		n := c.N(300, 5000)
		for i := 0; i < n; i++ {
			kind := []string{"dag", "dagfail", "dag", "chain", "fan"}[i%5]
			scheds(fmt.Sprintf("rnd/%s/%d", kind, i), c.N(3, 10), false)
		}
		scheds("named/wide-diamond-mesh", 2, false)
	case "C05":
		c.SetRule("every directed graph on n<=3 (quick) / n<=4 (thorough) nodes incl. self-loops, root = node 0 (exhaustive), random graphs up to 40 nodes with planted overlapping cycles, " +
			"cycles not containing the root and self-loops on leaves, x limits {1,2,16} x PRNG schedules with yields concentrated between publishing the wait edge and checking for cycles; " +
			"termination oracle = Go runtime deadlock detector in the plain build (children use no timers) + quiescence of target goroutines after Run; cyclicity computed independently by DFS; " +
			"non-trivial = root has dependencies; distinct = distinct (graph, limit, trace signature)")
		limits = []int{1, 2, 16}
		for n := 1; n <= c.N(3, 4); n++ {
			for mask := uint64(0); mask < 1<<(uint(n*n)); mask++ {
				scheds(fmt.Sprintf("exh/%d/%d", n, mask), c.N(2, 2), true)
			}
		}
		for _, nm := range []string{"overlapping-self-loops", "two-cycle", "self-loop-on-leaf", "cycle-not-containing-root", "wide-diamond-mesh"} {
			scheds("named/"+nm, c.N(150, 1500), true)
		}
		nr := c.N(2000, 30000)
		for i := 0; i < nr; i++ {
			scheds(fmt.Sprintf("rnd/cyc/%d", i), 1, true)
		}
		c.SetExhaustive(false)
		c.Extra("exhaustive_part", fmt.Sprintf("all adjacency matrices on n<=%d nodes, each at every limit", c.N(3, 4)))
	case "C09":
		c.SetRule("wide fans (up to 64 leaves, bodies that spin so that targets overlap), layered meshes and chains x limits {1,2,3,4,8,16} set through CPU affinity (child asserts runtime.NumCPU()), " +
			"oracle = harness counter of targets inside LoadTarget/Evaluate but outside EvaluateTargets (never over-counts), shadow of the gate capacity updated under the gate's own mutex, " +
			"acquisitions = releases and capacity restored at quiescence, limit-1 builds complete; evidence counts how often the counter reached the limit; " +
			"non-trivial = root has dependencies; distinct = distinct (graph, limit, trace signature)")
		n := c.N(200, 4000)
		for i := 0; i < n; i++ {
			kind := []string{"fan", "fan", "dag", "chain", "dagfail", "cyc"}[i%6]
			scheds(fmt.Sprintf("rnd/%s/%d", kind, i), 1, false)
		}
		// slot conservation also on the cyclic-dependency error paths
		for _, nm := range []string{"two-cycle", "self-loop-on-leaf", "cycle-not-containing-root", "overlapping-self-loops"} {
			scheds("named/"+nm, c.N(10, 100), true)
		}
		for n := 1; n <= 3; n++ {
			for mask := uint64(0); mask < 1<<(uint(n*n)); mask += uint64(c.N(3, 1)) {
				scheds(fmt.Sprintf("exh/%d/%d", n, mask), 1, true)
			}
		}
	}
	var want []string
	for _, id := range ids {
		if c.Want(id) {
			want = append(want, id)
		}
	}
	var mu sync.Mutex
	died := func(limit int, race bool) func(string, *core.ChildResult) {
		return func(caseID string, r *core.ChildResult) {
			mu.Lock()
			defer mu.Unlock()
			g := graphFor(c.Seed, caseID[:strings.LastIndex(caseID, "/s")])
			w := map[string]any{"graph": g.desc, "adjacency": g.adj, "limit": limit, "race_build": race, "exit": r.Exit, "signal": r.Signal, "stderr": headLinesStr(r.Stderr, 45)}
			kind := r.FatalKind()
			switch {
			case kind == "deadlock":
				c.Violation(caseID, namedScenario(caseID), "C05: build deadlocks (runtime: all goroutines are asleep)", w)
			case kind != "":
				c.Violation(caseID, namedScenario(caseID), "C05: build kills the process: "+kind, w)
			case r.TimedOut && dumpShowsDeadlock(r.Stderr):
				c.Violation(caseID, namedScenario(caseID), "C05: build hangs: every goroutine of the build is parked in a dawn wait", w)
			case r.TimedOut:
				c.Inconclusive(fmt.Sprintf("case %s limit %d: wall-clock watchdog fired without deadlock evidence", caseID, limit))
			default:
				c.Violation(caseID, namedScenario(caseID), "C05: build kills the process: exit "+fmt.Sprint(r.Exit), w)
			}
		}
	}
	races := int64(0)
	for _, race := range []bool{false, true} {
		if race && c.Violations() > 0 {
			break // the plain build already refuted the property; the race build would only repeat it slowly
		}
		bin := ""
		env := []string{}
		if race {
			if c.RaceBin == "" {
				continue
			}
			bin = c.RaceBin
			env = append(env, "GORACE=halt_on_error=0 log_path="+c.Scratch+"/race-"+which)
		}
		for _, limit := range limits {
			cases := want
			if race {
				// the race build repeats a slice of the workload (2-13x slower)
				cases = nil
				for i, id := range want {
					if i%c.N(4, 3) == 0 && !strings.HasPrefix(id, "exh/4/") {
						cases = append(cases, id)
					}
				}
			}
			workers := 16 / limit
			if workers > 12 {
				workers = 12
			}
			if workers < 1 {
				workers = 1
			}
			if limit == 16 {
				workers = 2
			}
			timeout := 4 * time.Minute
			if race {
				timeout = 100 * time.Second
			}
			c.RunSharded(cases, core.ShardOpts{Mode: "runner", Bin: bin, Workers: workers, CPUs: limit, Timeout: timeout, PerCaseTime: 150 * time.Millisecond,
				Env: append(env, "VERIF_LIMIT="+fmt.Sprint(limit)), Died: died(limit, race)})
			if which == "C09" && !race && limit <= 2 {
				// the limit is the number of CPUs, whatever GOMAXPROCS says: the same CPU set with GOMAXPROCS raised
				var some []string
				for i, id := range cases {
					if i%3 == 0 {
						some = append(some, id)
					}
				}
				c.Count("children_with_gomaxprocs_above_the_cpu_count", 1)
				c.RunSharded(some, core.ShardOpts{Mode: "runner", Bin: bin, Workers: workers, CPUs: limit, Timeout: timeout, PerCaseTime: 150 * time.Millisecond,
					Env: append(append([]string{}, env...), "VERIF_LIMIT="+fmt.Sprint(limit), "GOMAXPROCS="+fmt.Sprint(limit+5)), Died: died(limit, race)})
			}
		}
	}
	if which == "C04" {
		// the same clause through real projects: dependency labels spelt in different legal ways,
		// diamonds, always-builds; every label visited at most once per build
		var pids []string
		for i := 0; i < c.N(150, 3000); i++ {
			if id := fmt.Sprintf("proj/%d", i); c.Want(id) {
				pids = append(pids, id)
			}
		}
		c.RunSharded(pids, core.ShardOpts{Mode: "c04proj", Workers: 12, Timeout: 20 * time.Minute})
	}
	if which == "C05" {
		// the same property through real projects: cyclic target graphs built repeatedly on one long-lived Project
		var pids []string
		for i := 0; i < c.N(60, 1500); i++ {
			if id := fmt.Sprintf("cproj/%d", i); c.Want(id) {
				pids = append(pids, id)
			}
		}
		c.RunSharded(pids, core.ShardOpts{Mode: "c05proj", Workers: 12, Timeout: 20 * time.Minute, Env: []string{"VERIF_CASE_TIMEOUT=120"}})
	}
	races = countRaceReports(c, c.Scratch+"/race-"+which, which)
	c.Extra("race_detector_reports", races)
	c.Extra("limits", limits)
}

func namedScenario(caseID string) string {
	if strings.HasPrefix(caseID, "named/") {
		return caseID[:strings.LastIndex(caseID, "/s")]
	}
	return ""
}

func headLinesStr(s string, n int) string {
	l := strings.Split(s, "\n")
	if len(l) > n {
		l = l[:n]
	}
	return strings.Join(l, "\n")
}

// dumpShowsDeadlock: a SIGQUIT goroutine dump in which build goroutines exist, all of them parked
// in sync waits inside dawn's runner and none runnable.
func dumpShowsDeadlock(dump string) bool {
	blocks := strings.Split(dump, "\n\ngoroutine ")
	parked, active := 0, 0
	for _, b := range blocks {
		if !strings.Contains(b, "github.com/pgavlin/dawn/runner") {
			continue
		}
		head := b
		if i := strings.Index(b, "\n"); i > 0 {
			head = b[:i]
		}
		if strings.Contains(head, "sync.Cond.Wait") || strings.Contains(head, "semacquire") || strings.Contains(head, "sync.Mutex.Lock") {
			parked++
		} else {
			active++
		}
	}
	return parked > 0 && active == 0
}

// countRaceReports parses the race detector's logs; every report with a dawn frame is a violation.
func countRaceReports(c *core.Ctx, prefix, which string) int64 {
	files, _ := filepath.Glob(prefix + ".*")
	seen := map[string]bool{}
	var n int64
	for _, f := range files {
		b, _ := os.ReadFile(f)
		for _, rep := range strings.Split(string(b), "==================") {
			if !strings.Contains(rep, "WARNING: DATA RACE") {
				continue
			}
			n++
			if !strings.Contains(rep, "github.com/pgavlin/dawn/") {
				continue
			}
			// de-duplicate by the first dawn frame of each of the two stacks
			var frames []string
			for _, l := range strings.Split(rep, "\n") {
				l = strings.TrimSpace(l)
				if strings.HasPrefix(l, "github.com/pgavlin/dawn/") && !strings.Contains(l, "verifharness") {
					frames = append(frames, l[:strings.IndexAny(l+"(", "(")])
				}
			}
			key := strings.Join(dedupe(frames), " | ")
			if seen[key] {
				continue
			}
			seen[key] = true
			c.Violation("race/"+fmt.Sprint(len(seen)), "", which+": data race in dawn code (race detector)", map[string]any{"frames": key, "report": headLinesStr(rep, 60)})
		}
	}
	return n
}

func dedupe(xs []string) []string {
	seen := map[string]bool{}
	var out []string
	for _, x := range xs {
		if !seen[x] && len(out) < 4 {
			seen[x] = true
			out = append(out, x)
		}
	}
	return out
}

// ---- C04 at the project level: one evaluation per target and build through real dawn.Load/Run --

func init() { registerCase("c04proj", c04ProjCase) }

func c04ProjCase(c *core.Ctx, id string) {
	g := &pj.Gen{R: c.Rand(id)}
	dir := filepath.Join(c.Scratch, fmt.Sprintf("c04p-%d", os.Getpid()))
	os.RemoveAll(dir)
	defer os.RemoveAll(dir)
	s := pj.NewSession(dir)
	e := pj.NewEngine(s, g.Project(), g)
	respelled := 0
	for _, t := range e.P.AllTargets() {
		respelled += len(t.Spell)
	}
	for step := 0; step < 5; step++ {
		if step > 0 {
			e.Edit([]string{"src-content", "atom-lit", "tgt-extra", "output-delete", "dep-add"}[g.R.IntN(5)])
		}
		always := g.R.IntN(4) == 0
		st, res, _ := e.Build(pickTarget(e), pj.BuildOpt{Always: always})
		if res.LoadErr != "" {
			c.Violation(id, "", "C04: generated project does not load", map[string]any{"error": res.LoadErr})
			return
		}
		visits := map[string]int{}
		for _, ev := range res.Events {
			if ev.Kind == "TargetUpToDate" || ev.Kind == "TargetEvaluating" {
				visits[ev.Label]++
			}
		}
		key := ""
		if respelled > 0 {
			key = fmt.Sprintf("%s/%d", id, step)
		}
		c.Eval(key)
		c.Count("project_builds", 1)
		c.Count("dependency_labels_written_in_non_canonical_form", int64(respelled))
		for l, n := range visits {
			if n > 1 {
				c.Violation(id, "", "C04: a target was evaluated more than once in one build", map[string]any{"label": l, "times": n, "executed": st.Executed, "history": e.Script(), "build_file_root": e.P.RenderFile("pkg:")})
				return
			}
		}
		for _, f := range st.Findings {
			if f.Kind == "executed-twice" {
				c.Violation(id, "", "C04: a target body ran more than once in one build", map[string]any{"finding": f, "history": e.Script()})
				return
			}
		}
	}
	// "the outcome it is handed for each dependency is that dependency's actual outcome", seen from outside: when a body
	// fails, the error a requested dependent ends with names a dependency that did not succeed in this build
	ts := e.P.AllTargets()
	for k := 0; k < 3; k++ {
		f := ts[g.R.IntN(len(ts))]
		var dependents []string
		for _, t := range ts {
			if t != f && contains2(e.Closure(t.Label()), f.Label()) {
				dependents = append(dependents, t.Label())
			}
		}
		if len(dependents) == 0 {
			continue
		}
		req := dependents[g.R.IntN(len(dependents))]
		_, res, _ := e.Build(req, pj.BuildOpt{Always: true, Failing: []string{f.Label()}})
		c.Eval(fmt.Sprintf("%s/fail/%d", id, k))
		c.Count("project_builds_with_a_failing_body", 1)
		if res.RunErr == "" {
			c.Violation(id, "", "C04: the build's result is not the requested target's result", map[string]any{"requested": req, "failing_body": f.Label(), "why": "a body in the closure failed, the build reported success", "history": e.Script()})
			return
		}
		okOutcome := map[string]bool{}
		for _, ev := range res.Events {
			if ev.Kind == "TargetSucceeded" || ev.Kind == "TargetUpToDate" {
				okOutcome[ev.Label] = true
			}
		}
		var named string
		if n, _ := fmt.Sscanf(res.RunErr, "dependency %s failed", &named); n == 1 && okOutcome[named] {
			c.Violation(id, "", "C04: a target was handed another outcome than its dependency's actual one", map[string]any{"requested": req, "failing_body": f.Label(),
				"run_error": res.RunErr, "why": named + " succeeded in this build, yet the requested target failed because of it", "history": e.Script(), "build_file_root": e.P.RenderFile("pkg:")})
			return
		}
	}
}

// ---- C05 at the project level: cyclic target graphs on one long-lived Project ---------------------------------------

func init() { registerCase("c05proj", c05ProjCase) }

func c05ProjCase(c *core.Ctx, id string) {
	g := &pj.Gen{R: c.Rand(id)}
	r := g.R
	dir := filepath.Join(c.Scratch, fmt.Sprintf("c05p-%d", os.Getpid()))
	os.RemoveAll(dir)
	defer os.RemoveAll(dir)
	s := pj.NewSession(dir)
	p := g.Project()
	ts := p.AllTargets()
	// close a cycle: self-dependency, two-cycle, or a back edge from something deep to something that reaches it
	a := ts[r.IntN(len(ts))]
	kind := []string{"self", "back-edge", "back-edge", "through-generated-file", "through-generated-file", "rewrites-its-own-source"}[r.IntN(6)]
	e := pj.NewEngine(s, p, g)
	var withGen []*pj.Tgt
	for _, t := range ts {
		if t.Gen != "" {
			withGen = append(withGen, t)
		}
	}
	if len(withGen) == 0 && kind != "self" {
		kind = "back-edge"
	}
	onlyCycleMembers := false
	switch kind {
	case "self":
		a.Deps = append(a.Deps, a.Label())
	case "through-generated-file":
		// a generates a file that b lists as a source, and a depends on b: the cycle runs through the implicit edge from
		// the generated source file to its generator
		a = withGen[r.IntN(len(withGen))]
		b := ts[r.IntN(len(ts))]
		if b == a || contains2(e.Closure(a.Label()), b.Label()) && false {
			b = a
		}
		if b == a {
			kind = "rewrites-its-own-source"
			a.GenSrc = append(a.GenSrc, a.Label())
		} else {
			b.GenSrc = append(b.GenSrc, a.Label())
			a.Deps = append(a.Deps, b.Label())
		}
		onlyCycleMembers = true
	case "rewrites-its-own-source":
		a = withGen[r.IntN(len(withGen))]
		a.GenSrc = append(a.GenSrc, a.Label()) // sources=[its own generated file]
		onlyCycleMembers = true
	default:
		cl := e.Closure(a.Label())
		b := p.Target(cl[r.IntN(len(cl))])
		b.Deps = append(b.Deps, a.Label())
		if b == a {
			kind = "self"
		}
	}
	p.WriteAll(s.Root)
	// requested targets: something that reaches the cycle
	var reqs []string
	for _, t := range ts {
		if contains2(e.Closure(t.Label()), a.Label()) {
			reqs = append(reqs, t.Label())
		}
	}
	if onlyCycleMembers && r.IntN(2) == 0 {
		reqs = []string{a.Label()} // the generator itself is requested: the source-file node is the one that closes the cycle
	}
	lv := &pj.Live{}
	for round := 0; round < 4; round++ {
		req := reqs[r.IntN(len(reqs))]
		res := lv.Build(pj.BuildReq{Root: s.Root, Target: req, Always: round == 2}) // plain builds pass nil options, like Watch
		c.Eval(fmt.Sprintf("%s/%d", id, round))
		c.Distinct(fmt.Sprintf("%s/%s/%d", id, kind, round))
		c.Count("cyclic_project_builds:"+kind, 1)
		if res.LoadErr != "" {
			c.Violation(id, "", "C05: generated project does not load", map[string]any{"error": res.LoadErr})
			return
		}
		cyc := 0
		for _, ev := range res.Events {
			if ev.Kind == "TargetFailed" && strings.Contains(ev.Err, "cyclic dependency") {
				cyc++
			}
		}
		if res.RunErr == "" || cyc == 0 {
			c.Violation(id, "", "C05: cyclic graph, no cyclic-dependency error reported", map[string]any{"requested": req, "cycle_through": a.Label(), "cycle_kind": kind, "round": round,
				"run_error": res.RunErr, "cyclic_dependency_errors_reported": cyc, "events": renderEvents(res.Events), "note": "builds 0..3 run on one Project, Reload() in between; plain builds pass nil options"})
			return
		}
	}
}
