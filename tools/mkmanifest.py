#!/usr/bin/env python3
"""Regenerates /verif/MANIFEST.json from the table below (kept in one place so it stays valid)."""
import json, subprocess, os
HERE = os.path.dirname(os.path.dirname(os.path.abspath(__file__)))

CHECKS = {
 # id: (level, technique, level_text, level_note, design_ref)
 "C01": ("exploration", "reference-model monitor over an execution log written by target bodies + differential comparison with from-scratch builds",
   "Real dawn.Load+Run on generated multi-package projects driven through generated histories of edits and builds (full, sub-target, failing, always, dry, fresh-process). A state-based reference model fed only by the execution log the bodies write decides, after every build that reports success, whether each target of the closure has executed since the present state of its inputs; generated files are compared byte-for-byte with a from-scratch build of a copy. Held on the histories explored.",
   "Trusts the generator's knowledge of which definitions a function references, the v.body builtin and the model (state based, ~150 lines). Edits to unrelated code in the same file create no expectation.", "DESIGN.md §5 C01"),
 "C02": ("exploration", "reference-model monitor (forbidden-execution oracle) over the execution log, fresh loads in-process and in fresh processes",
   "Same engine with irrelevant edits over-sampled: a body that starts although the model says the target and all its inputs are unchanged since its last successful execution (judged against the state before the build) is a violation. Every build is preceded by a fresh load, a third of them in a fresh process.",
   "Same trusted base as C01; edits in a file visible to a target that do not change its own definitions are 'uncertain' (no expectation).", "DESIGN.md §5 C02"),
 "C03": ("fault_enumeration", "crash-point enumeration with SIGKILL injection at named hooks, recovery in a fresh process judged by the reference model and a from-scratch build",
   "Per scenario a counting run lists every hit of every named crash point (record mkdir/create/write/close/rename, index create/write, evaluation enter/deps-done/before-body/after-body/after-save, body start/middle/end) per target; one child per distinct (point,label,n) is SIGKILLed exactly there at limits 1 and 4, then a fresh process loads and rebuilds. Also every failure pattern of one body and sampled pairs. Exhaustive per scenario over the named points; scenarios are generated.",
   "Crash = kill -9 of the process (no power-loss model). Crash points are the ones named by the verif hooks plus the body points.", "DESIGN.md §5 C03"),
 "C04": ("exploration", "assertion monitors in harness Targets/Target at the runner's client boundary, schedule perturbation at hook yield points, Go race detector",
   "runner.Run driven over generated acyclic graphs at limits 1,2,3,4,8,16 (CPU affinity) under PRNG schedules; the harness asserts load/evaluate at most once, dependency finished before the dependent continues, outcome identity by pointer in every slot (requests split over several calls, labels repeated inside one call), Run's result. Repeated under -race. The same clause is also checked through real projects (dependency labels spelt in different legal ways, diamonds): every label is visited at most once per build.",
   "Trusts the harness counters (atomics) and the graph generator.", "DESIGN.md §5 C04"),
 "C05": ("exploration", "exhaustive small-graph sweep + random cyclic graphs under perturbed schedules; termination decided by the Go runtime deadlock detector and a quiescence monitor",
   "Every directed graph on <=3 (quick) / <=4 (thorough) nodes incl. self-loops plus random graphs with planted cycles, at limits 1,2,16, in children that use no timers so that the runtime's deadlock detector fires; fatal errors (stack overflow) name their case through the journal; cyclicity computed independently; -race children use goroutine dumps.",
   "Termination is restated as: no runtime-detected deadlock, no fatal error, all requested target goroutines finish after Run (bounded spin).", "DESIGN.md §5 C05"),
 "C06": ("exploration", "counter/event monitors on real dawn.Load over generated load graphs with yields between load statements; runtime deadlock detector; race detector",
   "Generated load graphs (shared helpers that load other helpers, self-loads, 2..6-cycles, package files loading each other) x schedules that yield or rendezvous at named points inside loadModule/module.wait; v.tick counters and ModuleLoading events (at most once), expected targets/flags for acyclic graphs, cyclic-dependency error for cyclic ones.",
   "Trusts the load-graph generator and its DFS.", "DESIGN.md §5 C06"),
 "C07": ("exploration", "differential round-trip monitor with structural-isomorphism oracle over generated values",
   "Encode/Decode of the real codec on an exhaustive (container kind x size class x nesting position) matrix, every integer 0..70000 and all width boundaries, string length classes, aliasing/cycle patterns and PRNG-generated nested values; the oracle compares type, structure, order and sharing.",
   "Trusts the value generator and the isomorphism walk; tuples compared structurally; host-pickled objects never in cycles.", "DESIGN.md §5 C07"),
 "C08": ("exploration", "crash/outcome monitor over generated Starlark programs built in fresh child processes, stamp comparison across loads, mutation-detection oracle via the execution log",
   "Generated BUILD files combining up to 6 of 27 features (recursion, mutual recursion, closures, defaults, lambdas, comprehensions, every predeclared value, large and deeply nested data, ...): first build, second build of identical text (nothing may run, stamps equal), identical text in another directory, then mutations of something the function references (each must re-execute). Fatal errors are attributed through the journal. Exotic constructs live in named scenarios (two are known findings).",
   "A nested closure that refers to itself through a cell makes the interpreter dawn depends on overflow its stack while freezing module globals (the module does not load): counted, not reported.", "DESIGN.md §5 C08"),
 "C09": ("exploration", "shadow-state monitor of the gate under its own mutex (hook) + harness occupancy counter, limits via CPU affinity",
   "Wide fans, meshes and cyclic graphs (error paths) at limits 1,2,3,4,8,16: the number of targets inside LoadTarget/Evaluate but outside EvaluateTargets never exceeds the limit, shadow capacity stays in [0,limit], acquisitions = releases and capacity restored at quiescence; evidence counts how often the limit was reached.",
   "Trusts the hook placement (inside gate.enter/exit under g.m) and that taskset sets runtime.NumCPU (asserted in the child).", "DESIGN.md §5 C09"),
 "C10": ("exploration", "differential monitor against an independent reachability/max reference over generated universes (fake VCS dialer)",
   "mvs.BuildList on generated universes (diamonds, cycles, @vN majors, pre-releases), resolved with fresh and warm caches and permuted requirement names, compared with a 25-line reference.",
   "Trusts the fake repository and the reference.", "DESIGN.md §5 C10"),
 "C11": ("exploration", "metamorphic/differential monitors over sequences of get/tidy/upgrade-all on generated universes; bounded-progress watchdog for termination",
   "Sequences of operations with all query kinds; results re-resolved with BuildList and the reference; monotone assertions per path, name preservation, idempotence, resolved versions recomputed from the tag list; an operation that has not returned after 60 s inside the resolver is a violation.",
   "Only monotone statements for upgrades; idempotence of a get that cannot land exactly on the resolved version is a known finding (named scenario) and not asserted for random cases.", "DESIGN.md §5 C11"),
 "C12": ("exploration", "exhaustive enumeration of short label strings + builtin-driven confinement monitor on a loaded project",
   "All strings over {a,b,/,:,.,@} up to length 7/9 parsed, printed, re-parsed (also after RelativeTo), canonical printing checked; (package,path) pairs through label(), path(), target(sources=,generates=) with resolved paths checked against the root; record files counted per label.",
   "Exhaustive only up to the length bound and alphabet.", "DESIGN.md §5 C12"),
 "C13": ("exploration", "effect monitors (execution log, tree hash around Run) + twin-history comparison + event-set comparison",
   "Dry runs inserted into generated histories: no body executes, no file under the project or .dawn/build changes across Run, the evaluating set equals that of the real build performed next, a twin that skips the dry run behaves identically.",
   "Same engine as C01.", "DESIGN.md §5 C13"),
 "C14": ("exploration", "twin-history comparison + byte comparison of record files around GC",
   "GC (after a full or index-preferring load) inserted at random points of one of two otherwise identical histories; records of existing labels (including a source file that has the name of the target listing it) survive byte-identical, records of removed labels and planted temporaries disappear, nothing outside .dawn/build changes, later builds execute the same bodies in both twins.",
   "Expected record paths mirror dawn's path scheme (url.PathEscape of package/name).", "DESIGN.md §5 C14"),
 "C15": ("fault_enumeration", "exhaustive byte-substitution/truncation fault enumeration of valid encodings in journaled children + corruption enumeration of persisted records followed by real Load+Run",
   "Decoder: every (position, byte) substitution and every truncation of ~50 valid encodings incl. real function-environment stamps, plus structure-aware splices and grammar-generated opcode programs; each input is written to disk before the call so that a fatal error names it; the result must be an error or a non-nil value that is safe to use. Records: JSON-level and stamp-level corruptions, truncations, wrong types, dependency-stamp edits and index.json corruptions of a built project, each followed by Load+Run in a journaled child; outcome classes load error / build error / re-executed / semantically equal / crash / silently up to date.",
   "Well-formed is read weakly (non-nil, safe to use). Semantic equality of a corrupted stamp is decided with a 40-line mirror of dawn's environment unpickler.", "DESIGN.md §5 C15"),
 "C16": ("exploration", "reconstruction oracle walking returned diff objects, over exhaustive short sequences and generated/mutated value pairs",
   "Diff(a,b) on all pairs of words over {a,b} up to length 4 as string/bytes/tuple/list, generated nested values paired with mutated copies and unrelated values, and large pairs crossing the route-size fallback; all failed assertions of a case are reported. The rebuild reason of TargetEvaluating is checked against the delivered diff on generated project edits.",
   "Trusts starlark.EqualDepth as the notion of equality.", "DESIGN.md §5 C16"),
 "C17": ("exploration", "differential monitor against an independent recursive matcher; glob() and ignore lists on generated trees",
   "Every single pattern up to 3/4 tokens against every path up to 4/5 characters (exhaustive), sampled lists of 2-3 patterns and longer random patterns, plus the glob() builtin, os.glob and the ignore list on generated directory trees of a loaded project.",
   "Unescaped [ ] and empty paths are outside the grammar.", "DESIGN.md §5 C17"),
 "C18": ("exploration", "offline trace checker (per-label finite-state grammar + run-level rules) over event logs recorded through dawn.Events and the run(callback=) channel; race detector",
   "Generated projects with emitting bodies (PRNG-chunked text through the real lineWriter), failing bodies, missing and cyclic dependencies, dry runs, two Runs on one loaded project, and every chunking of 8 short texts; a recorder logs all events under one mutex and the checker applies U | E P* S | E P* F | F per label, the RunDone rules, line equality, 'evaluating iff the body ran'.",
   "Events are snapshotted after Run returns (and after a short settle period when Run failed).", "DESIGN.md §5 C18"),
 "C19": ("exploration", "round-trip monitor (deep comparison + byte comparison) over generated configurations",
   "Write/Load/Write on configs with hostile strings (quotes, control characters, Unicode, TOML-significant text, the empty string) in every position.",
   "Strings are valid UTF-8.", "DESIGN.md §5 C19"),
 "C20": ("exploration", "linearizability checking (porcupine) of recorded concurrent histories + direct counters, under the race detector",
   "Short histories of concurrent once calls on the real Cache builtin (2-32 goroutines, 1-4 keys, failing callables) recorded at the client boundary and checked against the sequential specification partitioned by key; plus a module-level Cache shared by the parallel targets of real builds (invocation counters).",
   "Intervals of invoked operations are narrowed to the callable's execution (client code), which is sound.", "DESIGN.md §5 C20"),
}
PENDING = {}
for i in range(1, 21):
    pid = "C%02d" % i
    if pid not in CHECKS:
        PENDING[pid] = "not claimed"

hooks_commits = subprocess.run(["git", "-C", "/repo", "log", "--format=%H %s"], capture_output=True, text=True).stdout.splitlines()
hook_shas = [l.split()[0] for l in hooks_commits if l.split(" ", 1)[1].startswith("verif hooks:")]

m = {
 "version": 1,
 "setup_cmd": "cd /verif && ./setup.sh",
 "hooks": {
   "guard": "verif (Go build tag)",
   "enable": "go build -tags verif (the harness module /verif/harness replaces github.com/pgavlin/dawn with /repo and is always built with -tags verif)",
   "baseline_off_cmd": "cd /repo && export GOFLAGS=-mod=mod GOPROXY=off GOSUMDB=off GOTOOLCHAIN=local && S=$(mktemp -d) && TMPDIR=$S go test -json -vet=off -count=1 -timeout 25m ./... ; rc=$?; rm -rf $S; exit $rc",
   "source_commits": list(reversed(hook_shas)),
   "add_only": True,
 },
 "engines": [
   {"name": "vcheck", "path": "/verif/harness", "serves_properties": sorted(CHECKS),
    "kind_free_text": "Go harness (external module importing dawn from /repo, built with -tags verif, plain and -race variants): workload generators, reference models, event-log monitors, journaled child processes, porcupine linearizability checker"},
 ],
 "checks": [],
 "not_applicable": [{"property_id": k, "reason": v} for k, v in sorted(PENDING.items())],
 "notes": "Technique family: runtime monitoring and sanitizers. Every check rebuilds the harness against /repo's working tree. known-findings.json lists fixed and known defects; see DESIGN.md.",
}
for pid in sorted(CHECKS):
    level, tech, text, note, ref = CHECKS[pid]
    m["checks"].append({
      "property_id": pid,
      "quick_cmd": "./check %s quick" % pid,
      "thorough_cmd": "./check %s thorough" % pid,
      "evidence_file": "/verif/evidence/%s.json" % pid,
      "replay_cmd_template": "./check %s quick --replay {path}" % pid,
      "engine": "vcheck",
      "level_claimed": {"category": level, "text": text, "design_ref": ref},
      "level_note": note,
      "technique": tech,
    })
json.dump(m, open(os.path.join(HERE, "MANIFEST.json"), "w"), indent=1)
print("wrote MANIFEST.json:", len(m["checks"]), "checks,", len(m["not_applicable"]), "not claimed")
