package main

import (
	"fmt"
	"io"
	"os"
	"path/filepath"
	"strings"

	dawn "github.com/pgavlin/dawn"
	"github.com/pgavlin/dawn/label"
	"github.com/pgavlin/dawn/verifharness/core"
	"go.starlark.net/starlark"
)

func init() { register("C12", "exploration", runC12) }

func safeParse(s string) (l *label.Label, err error, panicked any) {
	defer func() {
		if r := recover(); r != nil {
			panicked = r
		}
	}()
	l, err = label.Parse(s)
	return
}

func runC12(c *core.Ctx) {
	c.SetRule("every string over {a,b,/,:,.,@} up to a length bound (exhaustive) plus PRNG strings with Unicode/control bytes is parsed; each accepted label " +
		"with a name or without a kind is printed and re-parsed, also after RelativeTo against 4 packages, and checked for canonical printing; " +
		"(package, path) pairs incl. '..', absolute and repeated-separator forms go through the label(), path() and target(sources=, generates=) builtins " +
		"of a loaded project; non-trivial = accepted label / accepted path; distinct = distinct printed labels, distinct resolved paths")
	alpha := []byte("ab/:.@")
	maxLen := c.N(7, 9)
	printed := map[string]label.Label{}
	// base packages to resolve against: clean ones, then spellings that are not clean (repeated and trailing slashes, an
	// empty first element) and ones that must be rejected ('..' elements, a single leading slash); equivalent spellings
	// are listed next to each other (pkgClass gives the class of each)
	pkgs := []string{"//", "//a", "//a/b", "//b.a", "//a/", "///a", "//a//b", "//a/b/", "//a//b//", "//a/../..", "//a/./b", "/a", "//..", "a/"}
	pkgClass := []int{0, 1, 2, 3, 1, 1, 2, 2, 2, -1, -1, -1, -1, 4} // "a/" is a (valid) relative package
	var accepted, total, reparsed int64
	nviol := 0
	viol := func(id, sym string, w map[string]any) {
		nviol++
		if nviol <= 30 {
			c.Violation(id, "", sym, w)
		}
	}
	checkOne := func(id, s string) {
		total++
		l, err, p := safeParse(s)
		if p != nil {
			viol(id, "parse-panics", map[string]any{"input": s, "panic": fmt.Sprint(p)})
			return
		}
		if err != nil {
			return
		}
		accepted++
		var cands []*label.Label
		cands = append(cands, l)
		byClass := map[int]*label.Label{}
		for pi, pk := range pkgs {
			r, err := l.RelativeTo(pk)
			if err != nil {
				continue
			}
			cands = append(cands, r)
			if l.IsAbs() {
				continue
			}
			// a relative label resolved against a package that is not a valid package path must be rejected, and two
			// spellings of one package must give equal labels
			cl := pkgClass[pi]
			if cl < 0 {
				viol(id, "relative-label-resolved-against-an-invalid-package", map[string]any{"input": s, "package": pk, "result": fmt.Sprintf("%+v", *r)})
			} else if prev, ok := byClass[cl]; ok && *prev != *r {
				viol(id, "equivalent-packages-resolve-to-different-labels", map[string]any{"input": s, "package": pk, "a": fmt.Sprintf("%+v", *prev), "b": fmt.Sprintf("%+v", *r)})
			} else {
				byClass[cl] = r
			}
		}
		for k, x := range cands {
			if !(x.Name != "" || x.Kind == "") {
				continue
			}
			reparsed++
			str := x.String()
			y, err, p := safeParse(str)
			if p != nil {
				viol(id, "parse-panics", map[string]any{"input": str, "panic": fmt.Sprint(p)})
				continue
			}
			if err != nil {
				viol(id, "printed-label-rejected", map[string]any{"input": s, "relative_to": k, "label": fmt.Sprintf("%+v", *x), "printed": str, "error": err.Error()})
				continue
			}
			if *y != *x {
				viol(id, "reparse-differs", map[string]any{"input": s, "relative_to": k, "label": fmt.Sprintf("%+v", *x), "printed": str, "reparsed": fmt.Sprintf("%+v", *y)})
				continue
			}
			if prev, ok := printed[str]; ok {
				if prev != *x {
					viol(id, "two-labels-print-equal", map[string]any{"printed": str, "a": fmt.Sprintf("%+v", prev), "b": fmt.Sprintf("%+v", *x)})
				}
			} else if len(printed) < 3000000 {
				printed[str] = *x
			}
		}
	}
	// exhaustive enumeration
	buf := make([]byte, 0, maxLen)
	var rec func()
	rec = func() {
		checkOne("exh/"+string(buf), string(buf))
		if len(buf) == maxLen {
			return
		}
		for _, ch := range alpha {
			buf = append(buf, ch)
			rec()
			buf = buf[:len(buf)-1]
		}
	}
	if c.Replay == "" {
		rec()
	}
	c.Extra("exhaustive_part", fmt.Sprintf("all %d strings over {a,b,/,:,.,@} up to length %d", total, maxLen))
	exhTotal := total
	// random longer strings
	r := c.Rand("strings")
	pieces := []string{"a", "b", "/", "//", ":", ".", "..", "@", "@v2", "kind", "host/project", "pkg", "é", "\x00", "\n", " ", "%", "\\", "世", "\xff", "///", "::", "./", "../"}
	n := c.N(200000, 5000000)
	for i := 0; i < n; i++ {
		var b strings.Builder
		for k := 1 + r.IntN(9); k > 0; k-- {
			b.WriteString(pieces[r.IntN(len(pieces))])
		}
		id := fmt.Sprintf("rand/%d", i)
		if !c.Want(id) {
			continue
		}
		checkOne(id, b.String())
	}
	c.EvalN(total + reparsed)
	c.Count("print_reparse_checks", reparsed)
	c.Count("strings_parsed", total)
	c.Count("strings_accepted", accepted)
	c.Count("exhaustive_strings", exhTotal)
	for k := range printed {
		c.Distinct("L" + k)
		if len(k) > 3 && len(k) < 9 {
			c.SampleKey("label", map[string]string{"printed": k, "label": fmt.Sprintf("%+v", printed[k])})
		}
	}
	printed = nil

	c12Confinement(c)
}

// c12Confinement drives the path-taking builtins of a loaded project.
func c12Confinement(c *core.Ctx) {
	root := filepath.Join(c.Scratch, "c12proj")
	for _, d := range []string{"", "a", "a/b"} {
		os.MkdirAll(filepath.Join(root, d), 0o755)
		os.WriteFile(filepath.Join(root, d, "BUILD.dawn"), []byte("# empty\n"), 0o644)
	}
	os.WriteFile(filepath.Join(root, "dawn.toml"), []byte("name = \"p\"\n"), 0o644)
	os.WriteFile(filepath.Join(root, "a", "f.txt"), []byte("x"), 0o644)
	outside := filepath.Join(c.Scratch, "outside.txt")
	os.WriteFile(outside, []byte("secret"), 0o644)
	proj, err := dawn.Load(root, &dawn.LoadOptions{})
	if err != nil {
		c.Violation("confine/load", "", "load-error", map[string]any{"error": err.Error()})
		return
	}
	comps := []string{"a", "b", "..", ".", "", "f.txt", "a/..", "../..", "...", "..a", "a..", "%2e%2e", "\\..", "..\\", "x y"}
	var paths []string
	for _, x := range comps {
		paths = append(paths, x, "/"+x, "//"+x, x+"/")
		for _, y := range comps {
			paths = append(paths, x+"/"+y, "/"+x+"/"+y, x+"//"+y, "../"+x+"/"+y)
			if c.Tier == "thorough" {
				for _, z := range comps {
					paths = append(paths, x+"/"+y+"/"+z, "/"+x+"/"+y+"/"+z)
				}
			}
		}
	}
	paths = append(paths, "../outside.txt", "../../outside.txt", "a/../../outside.txt", "/../outside.txt", outside, "a/b/../../../outside.txt", "./../outside.txt")
	inside := func(p string) bool {
		rel, err := filepath.Rel(root, p)
		return err == nil && rel != ".." && !strings.HasPrefix(rel, "../")
	}
	tn := 0
	for _, pkg := range []string{"//", "//a", "//a/b"} {
		thread, globals := proj.REPLEnv(io.Discard, &label.Label{Package: pkg})
		for i, p := range paths {
			id := fmt.Sprintf("confine/%s/%d", pkg, i)
			if !c.Want(id) {
				continue
			}
			// label(path)
			c.EvalN(1)
			v, err := starlark.Call(thread, globals["label"], starlark.Tuple{starlark.String(p)}, nil)
			if err == nil {
				ls := string(v.(starlark.String))
				l, perr := label.Parse(ls)
				if perr != nil {
					// Not part of the property (it speaks about labels Parse accepts): counted, not reported.
					c.Count("label_builtin_result_not_parsable", 1)
				} else {
					// resolve the label back to a path with path() and check it stays inside the root
					pv, err := starlark.Call(thread, globals["path"], starlark.Tuple{starlark.String(ls)}, nil)
					if err == nil {
						rp := string(pv.(starlark.String))
						c.Distinct("P" + rp)
						if !inside(rp) {
							c.Violation(id, "", "path-escapes-root", map[string]any{"package": pkg, "path": p, "label": ls, "resolved": rp, "root": root})
						}
					}
					_ = l
				}
				c.Count("label_builtin_accepted", 1)
			} else {
				c.Count("label_builtin_rejected", 1)
			}
			// target(sources=[p]) and target(generates=[p])
			for _, kw := range []string{"sources", "generates"} {
				tn++
				name := fmt.Sprintf("t%d", tn)
				src := fmt.Sprintf("def f():\n    pass\nt = target(name=%q, %s=[%q], function=f)\n", name, kw, p)
				g, err := starlark.ExecFile(thread, "x.star", src, globals)
				c.EvalN(1)
				if err != nil {
					c.Count(kw+"_rejected", 1)
					continue
				}
				c.Count(kw+"_accepted", 1)
				tv := g["t"].(starlark.HasAttrs)
				lv, _ := tv.Attr(kw)
				it := lv.(*starlark.List).Iterate()
				var e starlark.Value
				for it.Next(&e) {
					rp := string(e.(starlark.String))
					c.Distinct("P" + rp)
					if !filepath.IsAbs(rp) || !inside(filepath.Clean(rp)) {
						c.Violation(id, "", "path-escapes-root", map[string]any{"package": pkg, "path": p, "builtin": "target(" + kw + "=)", "resolved": rp, "root": root})
					}
				}
				it.Done()
				c.SampleKey("confine-"+kw, map[string]string{"case": id, "package": pkg, "path": p, "accepted_as": lv.String()})
			}
		}
	}
	// contains(os path): the way from an OS path to a label. A path outside the project root - in particular in a sibling
	// directory whose name merely starts with the root directory's name - is not contained in the project.
	{
		parent := filepath.Dir(root)
		var abs []string
		for _, sib := range []string{"c12proj-backup", "c12project", "c12proj.old", "c12proj2", "c12pro", "other"} {
			os.MkdirAll(filepath.Join(parent, sib, "sub"), 0o755)
			os.WriteFile(filepath.Join(parent, sib, "sub", "in.txt"), []byte("x"), 0o644)
			abs = append(abs, filepath.Join(parent, sib), filepath.Join(parent, sib, "sub", "in.txt"), filepath.Join(root, "..", sib, "sub", "in.txt"))
			defer os.RemoveAll(filepath.Join(parent, sib))
		}
		abs = append(abs, root, root+"/", filepath.Join(root, "a"), filepath.Join(root, "a", "f.txt"), filepath.Join(root, "a", "..", "a", "f.txt"), filepath.Join(root, "nonexistent", "x"),
			parent, "/", outside, filepath.Join(root, "..", "outside.txt"), filepath.Join(root, "a", "..", ".."), root+"x", root+"/../c12proj/a")
		thread, globals := proj.REPLEnv(io.Discard, &label.Label{Package: "//"})
		for i, p := range abs {
			id := fmt.Sprintf("confine/contains/%d", i)
			v, err := starlark.Call(thread, globals["contains"], starlark.Tuple{starlark.String(p)}, nil)
			c.EvalN(1)
			c.Count("contains_calls", 1)
			if err != nil {
				continue
			}
			tup, ok := v.(starlark.Tuple)
			if !ok || len(tup) != 2 {
				continue
			}
			got := tup[1] == starlark.True
			if want := inside(filepath.Clean(p)); got != want {
				c.Violation(id, "", "path-escapes-root", map[string]any{"builtin": "contains", "path": p, "contained_according_to_dawn": got, "inside_the_root": want, "result": v.String(), "root": root})
			}
			c.Distinct("C" + p)
		}
	}
	// adversarial target names: every accepted name must get its own record file inside
	// .dawn/build/targets (the record path is derived from the label)
	advNames := []string{"..", ".", "%2F", "%", "a%2Fb", "%2e%2e", "BUILD.dawn", " ", "é", "a b", "\\", "name.with.dots", "-", "@v2", "a%", "%25", "A", "a", "con", "x\ty", "\u202e", "a//b", "a:b", ""}
	for _, pkg := range []string{"//", "//a", "//a/b"} {
		thread, globals := proj.REPLEnv(io.Discard, &label.Label{Package: pkg})
		for _, nm := range advNames {
			tn++
			src := fmt.Sprintf("def f%d():\n    pass\nt = target(name=%q, function=f%d)\n", tn, nm, tn)
			_, err := starlark.ExecFile(thread, "x.star", src, globals)
			c.EvalN(1)
			if err != nil {
				c.Count("adversarial_names_rejected", 1)
			} else {
				c.Count("adversarial_names_accepted", 1)
				c.Distinct("N" + pkg + ":" + nm)
			}
		}
	}
	work := filepath.Join(root, ".dawn", "build")
	filepath.Walk(work, func(p string, info os.FileInfo, err error) error {
		if err == nil && !info.IsDir() {
			if rel, rerr := filepath.Rel(filepath.Join(work, "targets"), p); rerr == nil && !strings.HasPrefix(rel, "..") && strings.Contains(rel, string(filepath.Separator)) {
				c.Violation("confine/records", "", "record-file-outside-the-flat-targets-directory", map[string]any{"file": p})
			}
		}
		return nil
	})
	for _, sp := range proj.Sources() {
		if !inside(sp) {
			c.Violation("confine/sources", "", "path-escapes-root", map[string]any{"source": sp, "root": root})
		}
	}
	// record paths: every distinct target label got its own record file.
	ntargets := 0
	for _, t := range proj.Targets() {
		if dawn.IsTarget(t.Label()) {
			ntargets++
		}
	}
	files := 0
	filepath.Walk(filepath.Join(root, ".dawn", "build", "targets"), func(p string, info os.FileInfo, err error) error {
		if err == nil && !info.IsDir() {
			files++
		}
		return nil
	})
	c.Count("targets_created", int64(ntargets))
	c.Count("target_record_files", int64(files))
	if files != ntargets {
		c.Violation("confine/records", "", "record-paths-collide", map[string]any{"targets": ntargets, "record_files": files})
	}
	os.RemoveAll(root)
	os.Remove(outside)
}
