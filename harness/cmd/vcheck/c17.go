package main

import (
	"fmt"
	"io"
	"os"
	"path/filepath"
	"sort"
	"strings"

	dawn "github.com/pgavlin/dawn"
	"github.com/pgavlin/dawn/label"
	dawnos "github.com/pgavlin/dawn/lib/os"
	"github.com/pgavlin/dawn/util"
	"github.com/pgavlin/dawn/verifharness/core"
	"go.starlark.net/starlark"
)

func init() { register("C17", "exploration", runC17) }

// globTok is one token of the reference grammar.
type globTok struct {
	kind byte // 'l' literal, '*' star, 'S' double star, '?' any one
	r    rune
}

// refParse tokenises a pattern exactly as documented; ok=false for an invalid escape.
func refParse(p string) ([]globTok, bool) {
	var toks []globTok
	rs := []rune(p)
	for i := 0; i < len(rs); i++ {
		switch rs[i] {
		case '\\':
			if i+1 >= len(rs) || !strings.ContainsRune(`\*?[]`, rs[i+1]) {
				return nil, false
			}
			toks = append(toks, globTok{'l', rs[i+1]})
			i++
		case '*':
			if i+1 < len(rs) && rs[i+1] == '*' {
				toks = append(toks, globTok{kind: 'S'})
				i++
			} else {
				toks = append(toks, globTok{kind: '*'})
			}
		case '?':
			toks = append(toks, globTok{kind: '?'})
		default:
			toks = append(toks, globTok{'l', rs[i]})
		}
	}
	return toks, true
}

// refMatch: does the whole path match the pattern? Independent recursive matcher over runes.
func refMatch(toks []globTok, path []rune) bool {
	type key struct{ t, p int }
	memo := map[key]bool{}
	var m func(t, p int) bool
	m = func(t, p int) bool {
		if t == len(toks) {
			return p == len(path)
		}
		k := key{t, p}
		if v, ok := memo[k]; ok {
			return v
		}
		res := false
		switch toks[t].kind {
		case 'l':
			res = p < len(path) && path[p] == toks[t].r && m(t+1, p+1)
		case '?':
			res = p < len(path) && m(t+1, p+1)
		case '*':
			for q := p; ; q++ {
				if m(t+1, q) {
					res = true
					break
				}
				if q >= len(path) || path[q] == '/' {
					break
				}
			}
		case 'S':
			for q := p; q <= len(path); q++ {
				if m(t+1, q) {
					res = true
					break
				}
			}
		}
		memo[k] = res
		return res
	}
	return m(0, 0)
}

func refMatchSet(pats [][]globTok, path string) bool {
	rs := []rune(path)
	for _, p := range pats {
		if refMatch(p, rs) {
			return true
		}
	}
	return false
}

func enumStrings(alpha []string, maxTok int) []string {
	out := []string{""}
	level := []string{""}
	for n := 0; n < maxTok; n++ {
		var next []string
		for _, p := range level {
			for _, a := range alpha {
				next = append(next, p+a)
			}
		}
		out = append(out, next...)
		level = next
	}
	return out
}

func runC17(c *core.Ctx) {
	c.SetRule("pattern lists over the token alphabet {a,b,/,.,*,**,?,\\*,\\?,+,(,|,$,é} against paths over {a,b,/,.,*,+,\\n,é}: single patterns " +
		"exhaustively up to a token/length bound, lists of 2..3 patterns and longer patterns PRNG-sampled; glob() builtin and the ignore list on generated trees; " +
		"non-trivial = (pattern list, path) where at least one pattern has a metacharacter; distinct = distinct (list, path) pairs")
	c.Assume("unescaped '[' and ']' and the empty path are outside the documented grammar and are not generated")

	patAlpha := []string{"a", "b", "/", ".", "*", "**", "?", `\*`, `\?`, "+", "(", "|", "$", "é", ","}
	pathAlpha := []string{"a", "b", "/", ".", "*", "+", "\n", "é", ","}
	maxPT, maxPL := c.N(3, 4), c.N(4, 5)
	pats := enumStrings(patAlpha, maxPT)
	paths := enumStrings(pathAlpha, maxPL)[1:] // non-empty paths
	c.Extra("single_patterns_enumerated", len(pats))
	c.Extra("paths_enumerated", len(paths))

	compile := func(id string, list []string) (func(string) bool, bool) {
		re, err := util.CompileGlobs(list)
		if err != nil {
			c.Violation(id, "", "valid-patterns-rejected", map[string]any{"patterns": list, "error": err.Error()})
			return nil, false
		}
		return re.MatchString, true
	}
	var nviol int
	checkList := func(id string, list []string, paths []string) {
		if !c.Want(id) {
			return
		}
		toks := make([][]globTok, len(list))
		meta := false
		for i, p := range list {
			t, ok := refParse(p)
			if !ok {
				return // not a valid pattern list
			}
			toks[i] = t
			meta = meta || strings.ContainsAny(p, "*?")
		}
		match, ok := compile(id, list)
		if !ok {
			return
		}
		for _, path := range paths {
			want := refMatchSet(toks, path)
			got := match(path)
			c.EvalN(1)
			if want {
				c.Count("matches", 1)
			}
			if got != want {
				nviol++
				if nviol <= 40 {
					sym := "matches-but-no-pattern-does"
					if want {
						sym = "pattern-matches-but-set-does-not"
					}
					c.Violation(id, "", sym, map[string]any{"patterns": list, "path": path, "set_matches": got, "reference": want})
				} else {
					c.Count("further_disagreements_not_written", 1)
				}
			}
		}
		if meta {
			c.Distinct(fmt.Sprintf("%x", hashStr(strings.Join(list, "\x00"))))
		}
	}

	// 1. exhaustive single patterns x all paths.
	for i, p := range pats {
		checkList(fmt.Sprintf("single/%d", i), []string{p}, paths)
	}
	c.SetExhaustive(false)
	c.Extra("exhaustive_part", fmt.Sprintf("every single pattern of up to %d tokens against every path of up to %d characters", maxPT, maxPL))

	// 2. lists of 2..3 patterns (sampled from the enumerated patterns), all paths up to length 4.
	r := c.Rand("lists")
	shortPaths := enumStrings(pathAlpha, c.N(3, 4))[1:]
	nl := c.N(3000, 60000)
	for i := 0; i < nl; i++ {
		k := 2 + r.IntN(2)
		list := make([]string, k)
		for j := range list {
			list[j] = pats[r.IntN(len(pats))]
		}
		checkList(fmt.Sprintf("list/%d", i), list, shortPaths)
		if i < 3 {
			c.SampleKey("list", map[string]any{"case": fmt.Sprintf("list/%d", i), "patterns": list, "paths_tried": len(shortPaths)})
		}
	}
	// realistic lists
	real := [][]string{
		{"*.go", "*.md"}, {"**/*.go", "docs/**"}, {"a", "b"}, {"src/*", "?.txt", "**/x"}, {"*.go"}, {".dawn/**", "node_modules"},
		{"a/b", "a"}, {"", "a"}, {"a", ""}, {"**"}, {"*"}, {"?"},
		// a comma is an ordinary character of a pattern: one pattern with a comma is not two patterns, in whichever order the
		// two lists are compiled in one process
		{"a,b"}, {"a", "b"}, {"a,b"}, {"*.bak,*.orig"}, {"*.bak", "*.orig"}, {"*.bak,*.orig"}, {"x", "y,z"}, {"x,y", "z"}, {"x", "y", "z"}, {"x,y,z"},
	}
	realPaths := []string{"foo.go", "foo.go.bak", "x/y.md", "y.md", "a", "b", "ab", "ba", "a/b", "x/a", "docs/x/y", "xdocs/x", "src/a", "src/a/b",
		"q.txt", "qq.txt", "d/x", "x", ".dawn/build/x", "node_modules", "node_modules/x", "x/node_modules", "a\nb", "\n", "*.go", "a.gox",
		"a,b", "m.bak", "m.orig", "m.bak,n.orig", "y,z", "x,y", "z", "y", "x,y,z"}
	for i, l := range real {
		checkList(fmt.Sprintf("real/%d", i), l, realPaths)
		c.SampleKey("real", map[string]any{"case": fmt.Sprintf("real/%d", i), "patterns": l})
	}

	// 3. longer random patterns and paths.
	nr := c.N(20000, 2000000)
	rr := c.Rand("long")
	for i := 0; i < nr; i++ {
		k := 1 + rr.IntN(3)
		list := make([]string, k)
		for j := range list {
			var b strings.Builder
			for t := rr.IntN(8); t > 0; t-- {
				b.WriteString(patAlpha[rr.IntN(len(patAlpha))])
			}
			list[j] = b.String()
		}
		ps := make([]string, 6)
		for j := range ps {
			var b strings.Builder
			for t := 1 + rr.IntN(8); t > 0; t-- {
				b.WriteString(pathAlpha[rr.IntN(len(pathAlpha))])
			}
			ps[j] = b.String()
		}
		checkList(fmt.Sprintf("long/%d", i), list, ps)
	}

	// 4. the glob() builtin and the ignore list on generated directory trees.
	c17Trees(c)
}

func c17Trees(c *core.Ctx) {
	r := c.Rand("trees")
	// (names that contain glob metacharacters and backslashes: an escaped metacharacter in a pattern matches the character itself)
	names := []string{"a", "b", "a.go", "b.go", "x.md", "a.go.bak", "c+d", "q", "é", "(x)", "a$", "x[1].txt", "q?", "s*r", "back\\slash", "lit\\[1\\].txt", "]"}
	dirs := []string{"", "src", "src/sub", "docs", "x", "x/y"}
	n := c.N(120, 3000)
	for i := 0; i < n; i++ {
		id := fmt.Sprintf("tree/%d", i)
		if !c.Want(id) {
			continue
		}
		root := filepath.Join(c.Scratch, fmt.Sprintf("c17-%d", i))
		os.MkdirAll(root, 0o755)
		var files []string
		for _, d := range dirs {
			for _, nm := range names {
				if r.IntN(3) == 0 {
					p := filepath.Join(d, nm)
					os.MkdirAll(filepath.Join(root, d), 0o755)
					os.WriteFile(filepath.Join(root, p), []byte("x"), 0o644)
					files = append(files, filepath.ToSlash(p))
				}
			}
		}
		pool := []string{"*.go", "**/*.go", "*.md", "src/*", "src/**", "**", "*", "?", "x/?", "docs/**", "**/a", "a", "b", "*.go.bak", "**.md", "c+d", "(x)", "a$", "src/sub/*.go", "é",
			// wildcard-free patterns with escapes, alone and below directories
			"x\\[1\\].txt", "q\\?", "s\\*r", "back\\\\slash", "lit\\[1\\].txt", "src/x\\[1\\].txt", "\\]", "docs/q\\?", "x/y/s\\*r", "a.go", "src/b.go", "x.md"}
		pick := func(max int) []string {
			k := r.IntN(max + 1)
			out := make([]string, k)
			for j := range out {
				out[j] = pool[r.IntN(len(pool))]
			}
			return out
		}
		include, exclude := pick(3), pick(2)
		if len(include) == 0 {
			include = []string{pool[r.IntN(len(pool))]}
		}
		// ignore list applied to package directories
		ignore := pick(2)
		os.WriteFile(filepath.Join(root, "BUILD.dawn"), []byte("def t():\n    pass\ntarget(name=\"t\", function=t)\n"), 0o644)
		for _, d := range []string{"src", "src/sub", "docs", "x", "x/y"} {
			if _, err := os.Stat(filepath.Join(root, d)); err == nil {
				os.WriteFile(filepath.Join(root, d, "BUILD.dawn"), []byte("def t():\n    pass\ntarget(name=\"t\", function=t)\n"), 0o644)
				files = append(files, d+"/BUILD.dawn")
			}
		}
		files = append(files, "BUILD.dawn", "dawn.toml")
		toml := "name = \"p\"\n"
		if len(ignore) > 0 {
			q := make([]string, len(ignore))
			for j, g := range ignore {
				q[j] = fmt.Sprintf("%q", g)
			}
			toml += "ignore = [" + strings.Join(q, ", ") + "]\n"
		}
		os.WriteFile(filepath.Join(root, "dawn.toml"), []byte(toml), 0o644)

		proj, err := dawn.Load(root, &dawn.LoadOptions{})
		if err != nil {
			c.Violation(id, "", "load-error", map[string]any{"error": err.Error(), "ignore": ignore})
			os.RemoveAll(root)
			continue
		}
		// ignore list: exactly the packages whose path matches no ignore pattern are loaded.
		igToks := make([][]globTok, len(ignore))
		for j, g := range ignore {
			igToks[j], _ = refParse(g)
		}
		wantPk := map[string]bool{"//:t": true}
		children := map[string][]string{"": {"src", "docs", "x"}, "src": {"src/sub"}, "x": {"x/y"}}
		var walk func(d string)
		walk = func(d string) {
			for _, sub := range children[d] {
				if _, err := os.Stat(filepath.Join(root, sub)); err != nil {
					continue
				}
				if len(ignore) > 0 && refMatchSet(igToks, sub) {
					continue // ignored directories are not descended into
				}
				wantPk["//"+sub+":t"] = true
				walk(sub)
			}
		}
		walk("")
		if len(ignore) > 0 && refMatchSet(igToks, "") {
			wantPk = map[string]bool{}
		}
		gotPk := map[string]bool{}
		for _, t := range proj.Targets() {
			gotPk[t.Label().String()] = true
		}
		c.EvalN(1)
		if fmt.Sprint(sortedKeys(gotPk)) != fmt.Sprint(sortedKeys(wantPk)) {
			c.Violation(id, "", "ignore-list-selects-wrong-packages", map[string]any{"ignore": ignore, "loaded": sortedKeys(gotPk), "reference": sortedKeys(wantPk)})
		}

		// glob() from the root package.
		thread, globals := proj.REPLEnv(io.Discard, &label.Label{Package: "//"})
		args := starlark.Tuple{strList(include), strList(exclude)}
		v, err := starlark.Call(thread, globals["glob"], args, nil)
		c.EvalN(1)
		if err != nil {
			c.Violation(id, "", "glob-error", map[string]any{"include": include, "exclude": exclude, "error": err.Error()})
		} else {
			var got []string
			it := v.(*starlark.List).Iterate()
			var e starlark.Value
			for it.Next(&e) {
				got = append(got, string(e.(starlark.String)))
			}
			it.Done()
			sort.Strings(got)
			inT := make([][]globTok, len(include))
			for j, g := range include {
				inT[j], _ = refParse(g)
			}
			exT := make([][]globTok, len(exclude))
			for j, g := range exclude {
				exT[j], _ = refParse(g)
			}
			var want []string
			all := append([]string{}, files...)
			// .dawn/build/index.json etc. are skipped by glob; .dawn/build is excluded by design.
			for _, f := range all {
				if refMatchSet(inT, f) && !(len(exclude) > 0 && refMatchSet(exT, f)) {
					want = append(want, f)
				}
			}
			sort.Strings(want)
			if fmt.Sprint(got) != fmt.Sprint(want) {
				c.Violation(id, "", "glob-selects-wrong-files", map[string]any{"include": include, "exclude": exclude, "files": all, "glob": got, "reference": want})
			}
			// os.glob (lib/os): same patterns, rooted in the thread's working directory, and it
			// also lists directories and the build-state files
			th := &starlark.Thread{Name: "osglob"}
			util.Chdir(th, root)
			ov, oerr := dawnos.Glob(th, dawnos.NewGlob(), starlark.Tuple{strList(include), strList(exclude)}, nil)
			c.EvalN(1)
			if oerr != nil {
				c.Violation(id, "", "os-glob-error", map[string]any{"include": include, "exclude": exclude, "error": oerr.Error()})
			} else {
				var ogot []string
				oit := ov.(*starlark.List).Iterate()
				for oit.Next(&e) {
					ogot = append(ogot, string(e.(starlark.String)))
				}
				oit.Done()
				sort.Strings(ogot)
				var owant []string
				filepath.Walk(root, func(p string, info os.FileInfo, err error) error {
					if err != nil || p == root {
						return nil
					}
					rel, _ := filepath.Rel(root, p)
					rel = filepath.ToSlash(rel)
					if refMatchSet(inT, rel) && !(len(exclude) > 0 && refMatchSet(exT, rel)) {
						owant = append(owant, rel)
					}
					return nil
				})
				sort.Strings(owant)
				if fmt.Sprint(ogot) != fmt.Sprint(owant) {
					c.Violation(id, "", "os-glob-selects-wrong-paths", map[string]any{"include": include, "exclude": exclude, "os_glob": ogot, "reference": owant})
				}
				c.Count("os_glob_paths_matched", int64(len(owant)))
			}
			c.Distinct(fmt.Sprintf("tree-%x", hashStr(fmt.Sprint(include, exclude, files))))
			c.Count("tree_files_matched", int64(len(want)))
			c.SampleKey("tree", map[string]any{"case": id, "include": include, "exclude": exclude, "ignore": ignore, "files": len(files), "matched": len(want)})
		}
		os.RemoveAll(root)
	}
}

func strList(s []string) *starlark.List {
	l := starlark.NewList(nil)
	for _, x := range s {
		l.Append(starlark.String(x))
	}
	return l
}

func sortedKeys(m map[string]bool) []string {
	var out []string
	for k := range m {
		out = append(out, k)
	}
	sort.Strings(out)
	return out
}
