package main

import (
	"fmt"
	"math/rand/v2"
	"os"
	"path/filepath"
	"sort"
	"strings"

	"github.com/pgavlin/dawn/verifharness/core"
	"github.com/pgavlin/dawn/verifharness/pj"
)

// Grammar-generated programs for C08 ("gprog/<i>"): instead of a fixed list of features, a small grammar writes helper
// functions (nested defs, lambdas, comprehensions, defaults, keyword-only parameters, *args/**kwargs, recursion, closures
// over locals, several same-named nested functions) and globals of every literal type. Every literal, operator, callee name
// and global name written is a *slot* with alternatives; a mutation switches one slot. The generator knows which top-level
// entity owns each slot and which entities the target function reaches, so the oracle is: a mutated slot whose owner is
// reachable from the target's function must make the target re-execute (its fingerprint changed).

type gSlot struct {
	alts  []string
	cur   int
	owner string // "t0", "F3", "G1"
	kind  string // literal | operator | default | callee | global-ref | global-value
	// for callee / global-ref slots: the entity each alternative names
	names []string
}

type gTok struct {
	text string
	slot int // -1 = plain text
}

type gProg struct {
	toks  []gTok
	slots []*gSlot
	// edges[owner] = slots indices of callee/global-ref kind owned by it (dynamic reachability)
	nF, nG int
	r      *rand.Rand
	cur    string // owner being generated
}

func (p *gProg) w(s string) { p.toks = append(p.toks, gTok{s, -1}) }
func (p *gProg) slot(kind string, alts []string, names []string) {
	p.slots = append(p.slots, &gSlot{alts: alts, owner: p.cur, kind: kind, names: names})
	p.toks = append(p.toks, gTok{"", len(p.slots) - 1})
}

func (p *gProg) text() string {
	var b strings.Builder
	for _, t := range p.toks {
		if t.slot < 0 {
			b.WriteString(t.text)
		} else {
			s := p.slots[t.slot]
			b.WriteString(s.alts[s.cur])
		}
	}
	return b.String()
}

// reachable returns the owners reachable from t0 under the current slot values.
func (p *gProg) reachable() map[string]bool {
	out := map[string]bool{"t0": true}
	for changed := true; changed; {
		changed = false
		for _, s := range p.slots {
			if (s.kind == "callee" || s.kind == "global-ref") && out[s.owner] && !out[s.names[s.cur]] {
				out[s.names[s.cur]] = true
				changed = true
			}
		}
	}
	return out
}

var gInts = []string{"0", "1", "2", "3", "7", "255", "256", "65535", "65536", "70000", "2147483648", "1099511627776", "-1", "-129"}

func (p *gProg) intLit() {
	a := p.r.Perm(len(gInts))
	p.slot("literal", []string{gInts[a[0]], gInts[a[1]], gInts[a[2]]}, nil)
}
func (p *gProg) smallLit(alts ...string) { p.slot("literal", alts, nil) }
func (p *gProg) op() {
	ops := [][]string{{"+", "-", "*"}, {"-", "+"}, {"*", "+"}, {"|", "&", "^"}}
	p.slot("operator", ops[p.r.IntN(len(ops))], nil)
}
func (p *gProg) cmp() {
	ops := [][]string{{"<", "<=", ">"}, {"==", "!="}, {">=", "<"}}
	p.slot("operator", ops[p.r.IntN(len(ops))], nil)
}

// expr writes an int-valued expression over the given variable names.
func (p *gProg) expr(vars []string, depth int) {
	switch k := p.r.IntN(6); {
	case depth <= 0 || k == 0:
		if p.r.IntN(2) == 0 {
			p.w(vars[p.r.IntN(len(vars))])
		} else {
			p.intLit()
		}
	case k == 1:
		p.w("(")
		p.expr(vars, depth-1)
		p.w(" ")
		p.op()
		p.w(" ")
		p.expr(vars, depth-1)
		p.w(")")
	case k == 2:
		p.w("(")
		p.expr(vars, depth-1)
		p.w(" if ")
		p.w(vars[p.r.IntN(len(vars))])
		p.w(" ")
		p.cmp()
		p.w(" ")
		p.intLit()
		p.w(" else ")
		p.expr(vars, depth-1)
		p.w(")")
	case k == 3:
		p.w("len([q ")
		p.op()
		p.w(" ")
		p.intLit()
		p.w(" for q in range(")
		p.smallLit("3", "4", "5")
		p.w(") if q % ")
		p.smallLit("2", "3", "5")
		p.w(" ")
		p.cmp()
		p.w(" ")
		p.smallLit("0", "1")
		p.w("])")
	case k == 4:
		p.w("(lambda m, n=")
		p.slot("default", []string{"11", "12", "70011"}, nil)
		p.w(": m ")
		p.op()
		p.w(" n)(")
		p.expr(vars, depth-1)
		p.w(")")
	default:
		p.w(vars[p.r.IntN(len(vars))])
		p.w(" ")
		p.op()
		p.w(" ")
		p.intLit()
	}
}

func (p *gProg) callee(idx int) bool {
	// a call to a helper with a smaller index (acyclic), the alternative being another such helper
	if idx <= 0 {
		return false
	}
	a := p.r.IntN(idx)
	alts, names := []string{fmt.Sprintf("F%d", a)}, []string{fmt.Sprintf("F%d", a)}
	if idx > 1 {
		b := (a + 1 + p.r.IntN(idx-1)) % idx
		alts, names = append(alts, fmt.Sprintf("F%d", b)), append(names, fmt.Sprintf("F%d", b))
	}
	p.slot("callee", alts, names)
	return true
}

func (p *gProg) globalRef() bool {
	if p.nG == 0 {
		return false
	}
	a := p.r.IntN(p.nG)
	alts, names := []string{fmt.Sprintf("G%d", a)}, []string{fmt.Sprintf("G%d", a)}
	if p.nG > 1 {
		b := (a + 1 + p.r.IntN(p.nG-1)) % p.nG
		alts, names = append(alts, fmt.Sprintf("G%d", b)), append(names, fmt.Sprintf("G%d", b))
	}
	p.slot("global-ref", alts, names)
	return true
}

// body writes the statements of a function whose int parameter is x; ind is the indentation; idx the helper index (callees
// have smaller indices); depth limits nesting of defs.
func (p *gProg) body(ind string, idx, depth int) {
	vars := []string{"x"}
	p.w(ind + "y = ")
	p.expr(vars, 2)
	p.w("\n")
	vars = append(vars, "y")
	n := 1 + p.r.IntN(4)
	sameName := p.r.IntN(3) == 0 // several nested functions sharing one name
	for i := 0; i < n; i++ {
		switch k := p.r.IntN(9); {
		case k == 0:
			p.w(ind + "if y ")
			p.cmp()
			p.w(" ")
			p.intLit()
			p.w(":\n" + ind + "    y = ")
			p.expr(vars, 1)
			p.w("\n" + ind + "else:\n" + ind + "    y = ")
			p.expr(vars, 1)
			p.w("\n")
		case k == 1:
			p.w(ind + "for i in range(")
			p.smallLit("2", "3", "4")
			p.w("):\n" + ind + "    y = (y ")
			p.op()
			p.w(" i) % ")
			p.smallLit("1000003", "1000033", "999983")
			p.w("\n")
		case k == 2 && depth > 0:
			name := fmt.Sprintf("inner%d", i)
			if sameName {
				name = "inner"
			}
			p.w(ind + "def " + name + "(a, b=")
			p.slot("default", []string{"21", "22", "65557"}, nil)
			if p.r.IntN(2) == 0 {
				p.w(", *, c=")
				p.slot("default", []string{"31", "32"}, nil)
				p.w("):\n")
				p.w(ind + "    x = a + b + c\n")
			} else if p.r.IntN(2) == 0 {
				p.w(", *rest, **opts):\n")
				p.w(ind + "    x = a + b + len(rest) + len(opts)\n")
			} else {
				p.w("):\n")
				p.w(ind + "    x = a + b\n")
			}
			p.body(ind+"    ", idx, depth-1)
			p.w(ind + "y = " + name + "(y " + ")\n")
		case k == 3:
			name := fmt.Sprintf("f%d", i)
			if sameName {
				name = "f"
			}
			// a closure over the local y
			p.w(ind + name + " = lambda a: (a ")
			p.op()
			p.w(" ")
			p.intLit()
			p.w(") ")
			p.op()
			p.w(" y\n" + ind + "y = " + name + "(")
			p.intLit()
			p.w(")\n")
		case k == 4:
			if p.w(ind + "y = y + "); !p.callee(idx) {
				p.intLit()
				p.w("\n")
			} else {
				p.w("(")
				p.smallLit("0", "1", "2")
				p.w(")\n")
			}
		case k == 5:
			if p.w(ind + "u = ["); p.globalRef() {
				p.w("]\n" + ind + "y = y + len(u)\n")
			} else {
				p.intLit()
				p.w("]\n")
			}
		case k == 6:
			p.w(ind + "w = {")
			p.smallLit("\"k\"", "\"j\"")
			p.w(": ")
			p.intLit()
			p.w("}\n" + ind + "y = y + len(w)\n")
		case k == 7:
			p.w(ind + "y = y + len(")
			p.smallLit("\"text\"", "\"Text\"", "b\"text\"")
			p.w(") + len(str(")
			p.smallLit("1.5", "2.5", "1e10")
			p.w("))\n")
		default:
			p.w(ind + "y = ")
			p.expr(vars, 2)
			p.w("\n")
		}
	}
	p.w(ind + "return y\n")
}

var gGlobalLits = [][]string{
	{"\"abc\"", "\"abd\"", "\"abc \""}, {"[1, 2]", "[1, 3]", "[1, 2, 2]"}, {"{\"k\": 1}", "{\"k\": 2}", "{\"j\": 1}"}, {"(1, \"a\")", "(1, \"b\")", "(1, \"a\", None)"},
	{"1.5", "2.5"}, {"b\"xy\"", "b\"xz\"", "\"xy\""}, {"True", "False"}, {"None", "0"}, {"set([1, 2])", "set([1, 3])"}, {"[[1], [2, [3]]]", "[[1], [2, [4]]]"},
	{"65535", "65536", "255"}, {"(lambda: 5)", "(lambda: 6)"}, {"struct_like(1)", "struct_like(2)"},
}

func genGProg(r *rand.Rand) *gProg {
	p := &gProg{r: r}
	p.w("# grammar-generated program\ndef struct_like(v):\n    return {\"field\": v, \"items\": [v, v]}\n")
	idxA := len(p.toks)
	p.nG = 1 + r.IntN(4)
	for g := 0; g < p.nG; g++ {
		p.cur = fmt.Sprintf("G%d", g)
		p.w(p.cur + " = ")
		p.slot("global-value", gGlobalLits[r.IntN(len(gGlobalLits))], nil)
		p.w("\n")
	}
	p.nF = 1 + r.IntN(5)
	for f := 0; f < p.nF; f++ {
		p.cur = fmt.Sprintf("F%d", f)
		if r.IntN(4) == 0 {
			// a recursive helper
			p.w("def " + p.cur + "(x):\n    if x <= ")
			p.smallLit("0", "1")
			p.w(":\n        return ")
			p.intLit()
			p.w("\n    return " + p.cur + "(x - 1) ")
			p.op()
			p.w(" ")
			p.intLit()
			p.w("\n")
			continue
		}
		p.w("def " + p.cur + "(x, d=")
		p.slot("default", []string{"41", "42", "4294967296"}, nil)
		p.w("):\n")
		p.body("    ", f, 2)
	}
	// the target: calls some helpers, reads some globals, and has code of its own
	idxB := len(p.toks)
	p.cur = "t0"
	p.w("@target()\ndef t0(self):\n    x = ")
	p.intLit()
	p.w("\n    vals = [")
	n := 1 + r.IntN(3)
	for i := 0; i < n; i++ {
		if r.IntN(3) != 0 {
			a := r.IntN(p.nF)
			alts, names := []string{fmt.Sprintf("F%d", a)}, []string{fmt.Sprintf("F%d", a)}
			if p.nF > 1 {
				b := (a + 1 + r.IntN(p.nF-1)) % p.nF
				alts, names = append(alts, fmt.Sprintf("F%d", b)), append(names, fmt.Sprintf("F%d", b))
			}
			p.slot("callee", alts, names)
			p.w("(")
			p.smallLit("0", "1", "2")
			p.w("), ")
		} else {
			p.w("repr(")
			p.globalRef()
			p.w("), ")
		}
	}
	p.w("(lambda a: a ")
	p.op()
	p.w(" ")
	p.intLit()
	p.w(")(x)]\n")
	if r.IntN(2) == 0 {
		p.w("    def local(a, b=")
		p.slot("default", []string{"51", "52"}, nil)
		p.w("):\n        return a ")
		p.op()
		p.w(" b\n    vals.append(local(x))\n")
	}
	p.w("    v.body(\"//:t0\", vals, [], \"\")\n")
	p.w("@target(deps=[\":t0\"])\ndef t1(self):\n    v.body(\"//:t1\", [1], [], \"\")\n")
	if r.IntN(3) == 0 {
		// the targets are declared first, the globals and helpers they use only afterwards (names are resolved when the
		// body runs)
		late := append([]gTok{}, p.toks[idxA:idxB]...)
		rest := append([]gTok{}, p.toks[idxB:]...)
		p.toks = append(append(p.toks[:idxA:idxA], rest...), late...)
	}
	return p
}

func c08GenCase(c *core.Ctx, id string) {
	base := filepath.Join(c.Scratch, fmt.Sprintf("c08g-%d", os.Getpid()))
	os.RemoveAll(base)
	defer os.RemoveAll(base)
	s := pj.NewSession(filepath.Join(base, "a"))
	build := childBuilder(c, 0)
	r := c.Rand(id)
	p := genGProg(r)
	text := p.text()
	viol := func(sym string, w map[string]any) {
		w["build_file"] = p.text()
		c.Violation(id, "", sym, w)
	}
	run := func(step string) (executed []string, ok bool) {
		c08Write(s.Root, p.text())
		from := s.LogLen()
		res, alive := build(pj.BuildReq{Root: s.Root, Target: "//:t1"}, nil)
		c.Count("builds", 1)
		switch {
		case !alive:
			viol("fingerprinting-kills-the-process", map[string]any{"step": step, "error": headLinesStr(res.RunErr, 12)})
			return nil, false
		case res.LoadErr != "":
			// the grammar only writes loadable programs; a load error is a harness defect, not a verdict
			c.Inconclusive("gprog: generated program does not load: " + headLinesStr(res.LoadErr, 3))
			return nil, false
		case strings.Contains(res.RunErr, "function environment") || eventErr(res.Events, "function environment") != "":
			viol("fingerprint-computation-or-comparison-fails", map[string]any{"step": step, "error": res.RunErr + " " + eventErr(res.Events, "function environment")})
			return nil, false
		case res.RunErr != "":
			c.Inconclusive("gprog: generated program fails at run time: " + headLinesStr(res.RunErr+" "+eventErr(res.Events, ""), 3))
			return nil, false
		}
		return executedSince(s, from), true
	}
	ex, ok := run("first build")
	if !ok {
		c.Eval("")
		return
	}
	if fmt.Sprint(ex) != "[//:t0 //:t1]" {
		viol("first-build-did-not-execute-both-targets", map[string]any{"executed": ex})
		return
	}
	st1 := stampsOf(s.Root)
	if ex, ok = run("second build of identical text"); !ok {
		c.Eval("")
		return
	}
	if len(ex) > 0 {
		viol("second-load-of-identical-text-re-executes", map[string]any{"executed": ex})
		return
	}
	if st2 := stampsOf(s.Root); fmt.Sprint(st1) != fmt.Sprint(st2) {
		viol("fingerprint-differs-between-two-loads-of-identical-text", map[string]any{"records": sortedKeysS(st1)})
		return
	}
	_ = text
	nm := 4
	order := r.Perm(len(p.slots))
	done := 0
	for _, si := range order {
		if done >= nm {
			break
		}
		sl := p.slots[si]
		if len(sl.alts) < 2 {
			continue
		}
		reach := p.reachable()
		referenced := reach[sl.owner]
		if !referenced && r.IntN(4) != 0 {
			continue // mostly mutate what the target references
		}
		old := sl.alts[sl.cur]
		sl.cur = (sl.cur + 1 + r.IntN(len(sl.alts)-1)) % len(sl.alts)
		done++
		what := fmt.Sprintf("%s slot of %s: %s -> %s", sl.kind, sl.owner, old, sl.alts[sl.cur])
		if ex, ok = run("build after mutation: " + what); !ok {
			c.Eval("")
			return
		}
		c.Count("mutations", 1)
		c.Count("mutation_kind:"+sl.kind, 1)
		ran := contains2(ex, "//:t0")
		switch {
		case referenced && !ran:
			viol("change-to-a-referenced-value-not-detected", map[string]any{"mutation": what, "owner_reachable_from_target": true, "executed": ex})
			return
		case referenced:
			c.Distinct(fmt.Sprintf("%s/%d", id, si))
		case ran:
			c.Count("target_ran_after_a_mutation_outside_what_it_references (no verdict)", 1)
		default:
			c.Count("mutations_outside_what_the_target_references", 1)
		}
	}
	// the last text, loaded once more: nothing may run
	if ex, ok = run("rebuild of the last text"); ok && len(ex) > 0 {
		viol("second-load-of-identical-text-re-executes", map[string]any{"executed": ex, "after": "mutations"})
		return
	}
	c.Eval(id)
	owners := map[string]bool{}
	for _, sl := range p.slots {
		owners[sl.owner] = true
	}
	var os_ []string
	for o := range owners {
		os_ = append(os_, o)
	}
	sort.Strings(os_)
	c.SampleKey("grammar-program", map[string]any{"case": id, "slots": len(p.slots), "entities": os_, "bytes": len(p.text())})
}
