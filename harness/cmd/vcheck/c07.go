package main

import (
	"bytes"
	"fmt"
	"sync"

	"github.com/pgavlin/dawn/pickle"
	"github.com/pgavlin/dawn/verifharness/core"
	"github.com/pgavlin/dawn/verifharness/sval"
	"go.starlark.net/starlark"
)

func init() { register("C07", "exploration", runC07) }

func pickleRoundTrip(v starlark.Value) (starlark.Value, []byte, error) {
	var buf bytes.Buffer
	if err := pickle.NewEncoder(&buf, sval.HostPicklerT{}).Encode(v); err != nil {
		return nil, nil, fmt.Errorf("encode: %w", err)
	}
	enc := append([]byte(nil), buf.Bytes()...)
	out, err := pickle.NewDecoder(&buf, pickle.UnpicklerFunc(sval.HostUnpickler)).Decode()
	if err != nil {
		return nil, enc, fmt.Errorf("decode: %w", err)
	}
	if out == nil {
		return nil, enc, fmt.Errorf("decode: returned nil value and nil error")
	}
	return out, enc, nil
}

func mkContainer(kind string, n int, base int) starlark.Value {
	switch kind {
	case "tuple":
		t := make(starlark.Tuple, n)
		for i := range t {
			t[i] = starlark.MakeInt(base + i)
		}
		return t
	case "list":
		l := starlark.NewList(nil)
		for i := 0; i < n; i++ {
			l.Append(starlark.MakeInt(base + i))
		}
		return l
	case "dict":
		d := starlark.NewDict(n)
		for i := 0; i < n; i++ {
			d.SetKey(starlark.MakeInt(base+i), starlark.String(fmt.Sprint("v", i)))
		}
		return d
	case "set":
		s := starlark.NewSet(n)
		for i := 0; i < n; i++ {
			s.Insert(starlark.MakeInt(base + i))
		}
		return s
	case "host":
		if n > 8 {
			n = 8
		}
		return &sval.HostObj{Name: "M", Args: mkContainer("tuple", n, base).(starlark.Tuple)}
	}
	panic(kind)
}

type position struct {
	name     string
	hashable bool // the position requires a hashable value
	wrap     func(x starlark.Value) starlark.Value
}

func c07Positions() []position {
	s7 := starlark.MakeInt(7)
	lst := func(vs ...starlark.Value) starlark.Value { return starlark.NewList(vs) }
	return []position{
		{"top", false, func(x starlark.Value) starlark.Value { return x }},
		{"tuple1[0]", false, func(x starlark.Value) starlark.Value { return starlark.Tuple{x} }},
		{"tuple2[0]", false, func(x starlark.Value) starlark.Value { return starlark.Tuple{x, s7} }},
		{"tuple2[1]", false, func(x starlark.Value) starlark.Value { return starlark.Tuple{s7, x} }},
		{"tuple3[1]", false, func(x starlark.Value) starlark.Value { return starlark.Tuple{s7, x, s7} }},
		{"tuple4[0]", false, func(x starlark.Value) starlark.Value { return starlark.Tuple{x, s7, s7, s7} }},
		{"tuple4[3]", false, func(x starlark.Value) starlark.Value { return starlark.Tuple{s7, s7, s7, x} }},
		{"list1[0]", false, func(x starlark.Value) starlark.Value { return lst(x) }},
		{"list2[0]", false, func(x starlark.Value) starlark.Value { return lst(x, s7) }},
		{"list2[1]", false, func(x starlark.Value) starlark.Value { return lst(s7, x) }},
		{"list3[1]", false, func(x starlark.Value) starlark.Value { return lst(s7, x, s7) }},
		{"dict-value-first", false, func(x starlark.Value) starlark.Value {
			d := starlark.NewDict(2)
			d.SetKey(starlark.String("k"), x)
			d.SetKey(starlark.String("l"), s7)
			return d
		}},
		{"dict-value-last", false, func(x starlark.Value) starlark.Value {
			d := starlark.NewDict(2)
			d.SetKey(starlark.String("k"), s7)
			d.SetKey(starlark.String("l"), x)
			return d
		}},
		{"dict-key", true, func(x starlark.Value) starlark.Value {
			d := starlark.NewDict(2)
			d.SetKey(x, s7)
			d.SetKey(starlark.String("l"), s7)
			return d
		}},
		{"set-element", true, func(x starlark.Value) starlark.Value {
			s := starlark.NewSet(2)
			s.Insert(x)
			s.Insert(s7)
			return s
		}},
		{"host-arg", false, func(x starlark.Value) starlark.Value {
			return &sval.HostObj{Name: "W", Args: starlark.Tuple{s7, x}}
		}},
		{"shared-twice", false, func(x starlark.Value) starlark.Value { return lst(x, s7, x) }},
		{"nested-2-deep", false, func(x starlark.Value) starlark.Value { return lst(starlark.Tuple{lst(x, s7), s7}, s7) }},
	}
}

func runC07(c *core.Ctx) {
	c.SetRule("every (container kind x size class x nesting position) triple and every integer/string boundary is enumerated, " +
		"then PRNG-generated nested values with aliasing, cycles and host-pickled objects; a case is non-trivial if it contains a " +
		"container, a boundary value or aliasing; distinct = distinct encodings (hash of the encoded bytes)")
	c.Assume("tuples are compared structurally (their identity is not observable in Starlark)")
	c.Assume("host-pickled values are shared but never part of a reference cycle (not representable by the codec)")

	check := func(id, shape string, v starlark.Value) {
		if !c.Want(id) {
			return
		}
		out, enc, err := pickleRoundTrip(v)
		key := ""
		if enc != nil {
			key = fmt.Sprintf("%x", hashBytes(enc))
		}
		c.Eval(key)
		c.Count("shape:"+shape, 1)
		c.Count("encoded_bytes", int64(len(enc)))
		opMu.Lock()
		for _, b := range enc {
			opSeen[b] = true
		}
		opMu.Unlock()
		if err != nil {
			c.Violation(id, "", "roundtrip-error", map[string]any{"value": sval.Describe(v), "error": err.Error(), "encoding_prefix_hex": hexPrefix(enc)})
			return
		}
		if err := sval.Iso(v, out); err != nil {
			c.Violation(id, "", "not-isomorphic", map[string]any{"value": sval.Describe(v), "decoded": sval.Describe(out), "difference": err.Error(), "encoding_prefix_hex": hexPrefix(enc)})
			return
		}
		c.SampleKey(shape, map[string]string{"case": id, "value": sval.Describe(v)})
	}

	// 1. boundary scalars at top level and inside a list.
	for i, n := range sval.BoundaryInts() {
		check(fmt.Sprintf("int/%d", i), "int-boundary", n)
		check(fmt.Sprintf("int-in-list/%d", i), "int-boundary", starlark.NewList([]starlark.Value{n, starlark.MakeInt(7)}))
	}
	for k := 0; k <= 70000; k++ { // every int through the 1-, 2- and 4-byte classes
		check(fmt.Sprintf("intseq/%d", k), "int-sweep", starlark.MakeInt(k))
	}
	g := &sval.Gen{R: c.Rand("strings"), Host: true}
	for _, n := range sval.StringLens {
		check(fmt.Sprintf("str/%d", n), "string-length-class", starlark.String(g.StrLen(n)))
		check(fmt.Sprintf("bytes/%d", n), "bytes-length-class", starlark.Bytes(g.StrLen(n)))
		check(fmt.Sprintf("str-key/%d", n), "string-length-class", func() starlark.Value {
			d := starlark.NewDict(1)
			d.SetKey(starlark.String(g.StrLen(n)), starlark.Bytes(g.StrLen(n)))
			return d
		}())
	}

	// 1b. one payload as a string and as bytes (and twice as each) within one value, at every length class: the type must
	// survive, whichever comes first
	for _, n := range sval.StringLens {
		pl := g.StrLen(n)
		sv, bv := starlark.String(pl), starlark.Bytes(pl)
		check(fmt.Sprintf("str-then-bytes/%d", n), "same-payload-string-and-bytes", starlark.Tuple{sv, bv})
		check(fmt.Sprintf("bytes-then-str/%d", n), "same-payload-string-and-bytes", starlark.NewList([]starlark.Value{bv, sv}))
		check(fmt.Sprintf("str-str-bytes-bytes/%d", n), "same-payload-string-and-bytes", starlark.Tuple{sv, starlark.String(pl), bv, starlark.Bytes(pl), sv})
		d := starlark.NewDict(2)
		d.SetKey(sv, bv)
		d.SetKey(bv, sv)
		check(fmt.Sprintf("str-bytes-as-keys/%d", n), "same-payload-string-and-bytes", d)
	}

	// 2. the (kind x size x position) matrix, exhaustively.
	matrix := 0
	for _, pos := range c07Positions() {
		for _, kind := range []string{"tuple", "list", "dict", "set", "host"} {
			if pos.hashable && kind != "tuple" {
				continue
			}
			for _, n := range sval.SizeClasses {
				id := fmt.Sprintf("matrix/%s/%s/%d", pos.name, kind, n)
				check(id, "matrix", pos.wrap(mkContainer(kind, n, 1000)))
				matrix++
			}
		}
	}
	c.Extra("matrix_cells", matrix)

	// 3. aliasing patterns incl. self reference.
	{
		l := starlark.NewList(nil)
		l.Append(l)
		check("alias/self-list", "aliasing", l)
		d := starlark.NewDict(1)
		d.SetKey(starlark.String("me"), d)
		check("alias/self-dict", "aliasing", d)
		a, b := starlark.NewList(nil), starlark.NewList(nil)
		a.Append(b)
		b.Append(a)
		check("alias/mutual", "aliasing", starlark.Tuple{a, b})
		big := mkContainer("list", 2500, 0).(*starlark.List)
		big.Append(big)
		check("alias/self-big-list", "aliasing", starlark.NewList([]starlark.Value{big, big}))
		e1, e2 := starlark.NewList(nil), starlark.NewList(nil) // equal but distinct
		check("alias/equal-not-same", "aliasing", starlark.NewList([]starlark.Value{e1, e2, e1}))
		h := &sval.HostObj{Name: "S", Args: starlark.Tuple{starlark.MakeInt(1)}}
		check("alias/shared-host", "aliasing", starlark.NewList([]starlark.Value{h, h, &sval.HostObj{Name: "S", Args: starlark.Tuple{starlark.MakeInt(1)}}}))
		// more than 256 memoised objects -> long memo references
		many := starlark.NewList(nil)
		var first *starlark.List
		for i := 0; i < 700; i++ {
			x := starlark.NewList([]starlark.Value{starlark.MakeInt(i)})
			if i == 0 {
				first = x
			}
			many.Append(x)
		}
		many.Append(first)
		many.Append(many.Index(699))
		check("alias/long-memo-ids", "aliasing", many)
	}

	// 3b. tuples that share backing storage (t[:n] is a sub-slice of t's array in the interpreter):
	// sharing storage must not make them share an encoding.
	{
		base := starlark.Tuple{starlark.MakeInt(1), starlark.MakeInt(4), starlark.MakeInt(2), starlark.String("x"), starlark.None}
		for lo := 0; lo <= len(base); lo++ {
			for hi := lo; hi <= len(base); hi++ {
				check(fmt.Sprintf("slices/full-then-%d-%d", lo, hi), "tuple-slices-sharing-storage", starlark.NewList([]starlark.Value{base, base[lo:hi]}))
				check(fmt.Sprintf("slices/%d-%d-then-full", lo, hi), "tuple-slices-sharing-storage", starlark.Tuple{base[lo:hi], base, base[lo:hi]})
			}
		}
		d := starlark.NewDict(2)
		d.SetKey(base[:2], base[:3])
		d.SetKey(base[:1], base)
		check("slices/as-dict-keys", "tuple-slices-sharing-storage", d)
	}

	// 3a'. dicts of every size class that hold a memoized value (a nested list) or themselves, referenced twice
	for _, n := range sval.SizeClasses {
		if n > 300 {
			continue
		}
		d := mkContainer("dict", n, 500).(*starlark.Dict)
		d.SetKey(starlark.String("nested"), starlark.NewList([]starlark.Value{starlark.MakeInt(n)}))
		check(fmt.Sprintf("alias/dict-with-nested-list/%d", n), "aliasing", starlark.NewList([]starlark.Value{d, d}))
		d2 := mkContainer("dict", n, 600).(*starlark.Dict)
		d2.SetKey(starlark.String("self"), d2)
		check(fmt.Sprintf("cycle/dict-containing-itself/%d", n), "self-reference", starlark.Tuple{d2, starlark.MakeInt(1), d2})
		l := mkContainer("list", n, 700).(*starlark.List)
		l.Append(l)
		st := mkContainer("set", n, 800)
		check(fmt.Sprintf("alias/set-and-cyclic-list/%d", n), "aliasing", starlark.Tuple{st, l, st, l})
	}

	// 3b. a host value that is one of its own arguments (encoded through PickleRecursive), followed by memoized
	// values: shared containers, self-referential containers, further host values.
	for k := 0; k < 6; k++ {
		mk := func() *sval.HostObj {
			h := &sval.HostObj{Name: "R", Args: starlark.Tuple{starlark.MakeInt(k)}}
			h.Args = append(h.Args, h)
			return h
		}
		after := []starlark.Value{mkContainer("set", 2, 10), mkContainer("list", 3, 20), mkContainer("dict", 2, 30), mkContainer("host", 2, 40), mkContainer("tuple", 4, 50), starlark.String("a string that is long enough to be memoized")}[k]
		h := mk()
		check(fmt.Sprintf("rechost/shared-after/%d", k), "recursive-host-then-shared", starlark.NewList([]starlark.Value{h, after, after}))
		h = mk()
		check(fmt.Sprintf("rechost/shared-around/%d", k), "recursive-host-then-shared", starlark.NewList([]starlark.Value{after, h, after, h}))
		h = mk()
		d := starlark.NewDict(2)
		d.SetKey(starlark.String("n"), h)
		d.SetKey(starlark.String("self"), d)
		d.SetKey(starlark.String("x"), after)
		check(fmt.Sprintf("rechost/self-dict/%d", k), "recursive-host-then-cyclic", d)
		h = mk()
		l := starlark.NewList([]starlark.Value{h})
		l.Append(l)
		l.Append(after)
		check(fmt.Sprintf("rechost/self-list/%d", k), "recursive-host-then-cyclic", starlark.Tuple{l, after, h})
		h, h2 := mk(), mk()
		check(fmt.Sprintf("rechost/two/%d", k), "recursive-host-then-shared", starlark.Tuple{h, h2, after, h, h2, after})
	}

	// 3c. streams: one Encoder encodes several values one after the other, one Decoder reads them back - memo ids run on
	// across the values of a stream on both sides
	{
		sg := &sval.Gen{R: c.Rand("streams"), Host: true}
		ns := c.N(300, 20000)
		for i := 0; i < ns; i++ {
			id := fmt.Sprintf("stream/%d", i)
			if !c.Want(id) {
				continue
			}
			var pool []starlark.Value
			n := 2 + sg.R.IntN(4)
			vals := make([]starlark.Value, n)
			for k := range vals {
				vals[k] = sg.Value(3, &pool) // the pool carries over: later values may share containers with earlier ones
				if k > 0 && sg.R.IntN(3) == 0 {
					in := starlark.NewList([]starlark.Value{starlark.MakeInt(k)})
					vals[k] = starlark.Tuple{in, vals[k], in}
				}
			}
			var buf bytes.Buffer
			enc := pickle.NewEncoder(&buf, sval.HostPicklerT{})
			var err error
			for _, v := range vals {
				if err = enc.Encode(v); err != nil {
					break
				}
			}
			c.Eval(id)
			c.Count("shape:stream", 1)
			if err != nil {
				c.Violation(id, "", "roundtrip-error", map[string]any{"error": "encode: " + err.Error()})
				continue
			}
			dec := pickle.NewDecoder(&buf, pickle.UnpicklerFunc(sval.HostUnpickler))
			for k, v := range vals {
				out, err := dec.Decode()
				if err != nil || out == nil {
					c.Violation(id, "", "roundtrip-error", map[string]any{"error": fmt.Sprint("decode of value ", k, " of the stream: ", err), "value": sval.Describe(v)})
					break
				}
				if err := sval.Iso(v, out); err != nil {
					c.Violation(id, "", "not-isomorphic", map[string]any{"stream_position": k, "values_in_stream": n, "difference": err.Error(), "value": sval.Describe(v), "decoded": sval.Describe(out)})
					break
				}
			}
		}
	}

	// 4. random nested values.
	n := c.N(20000, 2000000)
	core.Parallel(n, c.N(1, 14), func(i int) {
		id := fmt.Sprintf("random/%d", i)
		if !c.Want(id) {
			return
		}
		rg := &sval.Gen{R: c.Rand(id), Host: true, RecHost: i%2 == 1} // one PRNG stream per case: order independent
		var pool []starlark.Value
		check(id, "random", rg.Value(4, &pool))
	})

	// 5. "two values that differ never decode to equal values": pairs differing in one leaf.
	pairs := c.N(4000, 200000)
	pg := &sval.Gen{R: c.Rand("pairs")}
	ints := sval.BoundaryInts()
	for i := 0; i < pairs; i++ {
		id := fmt.Sprintf("pair/%d", i)
		var a, b starlark.Value
		switch i % 3 {
		case 0:
			a, b = ints[pg.R.IntN(len(ints))], ints[pg.R.IntN(len(ints))]
		case 1:
			x := pg.R.IntN(65536)
			a, b = starlark.MakeInt(x), starlark.MakeInt((x&0xff)|((x>>8)<<16)) // collides under a wrong 2-byte decode
		default:
			a, b = pg.Int(), pg.Int()
		}
		if !c.Want(id) {
			continue
		}
		if eq, _ := starlark.Equal(a, b); eq {
			continue
		}
		wa, wb := starlark.NewList([]starlark.Value{a}), starlark.NewList([]starlark.Value{b})
		da, _, ea := pickleRoundTrip(wa)
		db, _, eb := pickleRoundTrip(wb)
		c.Eval("")
		c.Count("shape:distinct-pair", 1)
		if ea != nil || eb != nil {
			c.Violation(id, "", "roundtrip-error", map[string]any{"a": a.String(), "b": b.String(), "err_a": fmt.Sprint(ea), "err_b": fmt.Sprint(eb)})
			continue
		}
		if eq, err := starlark.Equal(da, db); err == nil && eq {
			c.Violation(id, "", "distinct-values-decode-equal", map[string]any{"a": a.String(), "b": b.String(), "decoded_a": da.String(), "decoded_b": db.String()})
		}
	}
	ops := 0
	for _, s := range opSeen {
		if s {
			ops++
		}
	}
	c.Extra("distinct_byte_values_in_encodings", ops)
}

var opSeen [256]bool
var opMu sync.Mutex

func hexPrefix(b []byte) string {
	if len(b) > 64 {
		b = b[:64]
	}
	return fmt.Sprintf("%x", b)
}
