#!/bin/bash
# tools/seed.sh detect <patch.diff> <ID> [<ID>...]   apply a seeded change to /repo, run the quick checks, undo it
# tools/seed.sh suite  <worktree>                     run dawn's own test suite in a worktree (hooks off)
set -u
export GOFLAGS=-mod=mod GOPROXY=off GOSUMDB=off GOTOOLCHAIN=local
case "$1" in
 detect)
  patch=$2; shift 2
  git -C /repo diff --quiet || { echo "/repo is dirty"; exit 2; }
  git -C /repo apply "$patch" || { echo "patch does not apply"; exit 2; }
  trap 'git -C /repo checkout -- . ; git -C /repo status --short' EXIT
  for id in "$@"; do
    out=$(cd /verif && ./check "$id" "${TIER:-quick}" 2>&1)
    echo "$out" | grep -E "^(SUMMARY|BUILD-FAILED|NO-EVIDENCE|KNOWN-FINDING)" 
    echo "$out" | grep -E "^  case=" | sed 's/case="[^"]*"//' | sort | uniq -c | sort -rn | head -5
  done
  ;;
 suite)
  cd "$2" && S=$(mktemp -d) && TMPDIR=$S go test -vet=off -count=1 ./... 2>&1 | grep -v "no test files" ; rm -rf $S
  ;;
esac
