package main

import (
	"github.com/pgavlin/dawn/verifharness/core"
)

// placeholders, replaced below once the record-corruption part is written
func realStamps(c *core.Ctx) [][]byte { return nil }
func c15Records(c *core.Ctx)          {}
