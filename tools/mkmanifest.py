#!/usr/bin/env python3
"""Regenerates /verif/MANIFEST.json from the table below (kept in one place so it stays valid)."""
import json, subprocess, os
HERE = os.path.dirname(os.path.dirname(os.path.abspath(__file__)))

CHECKS = {
 # id: (level, technique, level_text, level_note, design_ref)
 "C07": ("exploration", "differential round-trip monitor with structural-isomorphism oracle over generated values",
         "Encode/Decode of the real codec is executed on an exhaustive (container kind x size class x nesting position) matrix, every integer 0..70000 and all width boundaries, string length classes, aliasing/cycle patterns and PRNG-generated nested values; an isomorphism oracle compares type, structure, order and sharing. Held on the executions observed, not a proof.",
         "Trusts the harness value generator and the isomorphism walk; tuples compared structurally; host-pickled objects never in cycles.",
         "DESIGN.md §5 C07"),
}
PENDING = {}
for i in range(1, 21):
    pid = "C%02d" % i
    if pid not in CHECKS:
        PENDING[pid] = "check under construction in this session (see DESIGN.md §5); not yet claimed"

hooks_commits = subprocess.run(["git", "-C", "/repo", "log", "--format=%H %s"], capture_output=True, text=True).stdout.splitlines()
hook_shas = [l.split()[0] for l in hooks_commits if l.split(" ", 1)[1].startswith("verif hooks:")]

m = {
 "version": 1,
 "setup_cmd": "cd /verif && ./setup.sh",
 "hooks": {
   "guard": "verif (Go build tag)",
   "enable": "go build -tags verif (the harness module /verif/harness replaces github.com/pgavlin/dawn with /repo and is always built with -tags verif)",
   "baseline_off_cmd": "cd /repo && export GOFLAGS=-mod=mod GOPROXY=off GOSUMDB=off GOTOOLCHAIN=local && S=$(mktemp -d) && TMPDIR=$S go test -json -vet=off -count=1 -timeout 25m ./... ; rc=$?; rm -rf $S; exit $rc",
   "source_commits": list(reversed(hook_shas)),
   "add_only": True,
 },
 "engines": [
   {"name": "vcheck", "path": "/verif/harness", "serves_properties": sorted(CHECKS),
    "kind_free_text": "Go harness (external module importing dawn from /repo, built with -tags verif, plain and -race variants): workload generators, reference models, event-log monitors, journaled child processes, porcupine linearizability checker"},
 ],
 "checks": [],
 "not_applicable": [{"property_id": k, "reason": v} for k, v in sorted(PENDING.items())],
 "notes": "Technique family: runtime monitoring and sanitizers. Every check rebuilds the harness against /repo's working tree. known-findings.json lists fixed and known defects; see DESIGN.md.",
}
for pid in sorted(CHECKS):
    level, tech, text, note, ref = CHECKS[pid]
    m["checks"].append({
      "property_id": pid,
      "quick_cmd": "./check %s quick" % pid,
      "thorough_cmd": "./check %s thorough" % pid,
      "evidence_file": "/verif/evidence/%s.json" % pid,
      "replay_cmd_template": "./check %s quick --replay {path}" % pid,
      "engine": "vcheck",
      "level_claimed": {"category": level, "text": text, "design_ref": ref},
      "level_note": note,
      "technique": tech,
    })
json.dump(m, open(os.path.join(HERE, "MANIFEST.json"), "w"), indent=1)
print("wrote MANIFEST.json:", len(m["checks"]), "checks,", len(m["not_applicable"]), "not claimed")
