#!/bin/bash
# tools/coverage.sh [ID...]  - statement coverage of dawn's own packages under the quick checks (tooling, not a verdict):
# which dawn code do the workloads never reach?  Prints per-function coverage below 100% for the anchored packages.
export GOFLAGS=-mod=mod GOPROXY=off GOSUMDB=off GOTOOLCHAIN=local
D=$(mktemp -d /tmp/verif-cover-XXXXXX)
ids=${@:-C01 C02 C03 C04 C05 C06 C07 C08 C09 C10 C11 C12 C13 C14 C15 C16 C17 C18 C19 C20}
for id in $ids; do
  VERIF_RACE_IDS=none VERIF_COVERDIR=$D/$id /verif/check $id ${TIER:-quick} 2>&1 | grep -E "^SUMMARY"
done
dirs=$(ls -d $D/C* | tr '\n' ',' | sed 's/,$//')
cd /verif/harness && go tool covdata textfmt -i=$dirs -o $D/all.txt && go tool cover -func=$D/all.txt > $D/func.txt
grep -v "100.0%" $D/func.txt | grep -v "_test\|verif_" | sort -k3 -n | head -${TOP:-400}
echo "profile: $D/all.txt"
