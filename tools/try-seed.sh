#!/bin/bash
# tools/try-seed.sh <worktree> <ID>...   verify a sub-agent's seeded change, then run the given checks against it
wt=$1; shift
echo "== $(basename $wt): $(grep '^diff' $wt/OUT/patch.diff | awk '{print $3}' | tr '\n' ' ')"
/verif/tools/verify-seed.sh $wt
/verif/tools/seed.sh detect $wt/OUT/patch.diff "$@" 2>&1 | grep -v KNOWN-FINDING | tail -8
