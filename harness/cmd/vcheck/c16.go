package main

import (
	"fmt"
	"math/rand/v2"
	"os"
	"path/filepath"
	"strings"
	"time"

	"github.com/pgavlin/dawn/diff"
	"github.com/pgavlin/dawn/verifharness/core"
	"github.com/pgavlin/dawn/verifharness/pj"
	"github.com/pgavlin/dawn/verifharness/sval"
	"go.starlark.net/starlark"
)

func init() { register("C16", "exploration", runC16) }

func seq(v starlark.Value) (starlark.Sliceable, bool) {
	s, ok := v.(starlark.Sliceable)
	return s, ok
}

func eq(a, b starlark.Value) bool {
	ok, err := starlark.EqualDepth(a, b, 1000)
	return err == nil && ok
}

// faithful collects every way in which d fails to describe old -> new.
func faithful(d diff.ValueDiff, old, new starlark.Value, path string, errs *[]string) {
	fail := func(format string, args ...any) {
		if len(*errs) < 12 {
			*errs = append(*errs, path+": "+fmt.Sprintf(format, args...))
		}
	}
	if d == nil {
		if !eq(old, new) {
			fail("empty diff for unequal values")
		}
		return
	}
	if eq(old, new) {
		fail("non-empty diff (%s) for equal values", d.Type())
	}
	if d.Old() == nil || d.New() == nil {
		fail("nil side in diff")
		return
	}
	if d.Old().Type() != old.Type() || !eq(d.Old(), old) {
		fail("Old() is %s, want the old value %s", short(d.Old()), short(old))
	}
	if d.New().Type() != new.Type() || !eq(d.New(), new) {
		fail("New() is %s, want the new value %s", short(d.New()), short(new))
	}
	switch d := d.(type) {
	case *diff.LiteralDiff:
		// nothing more to check
	case *diff.SliceableDiff:
		a, aok := seq(old)
		b, bok := seq(new)
		if !aok || !bok {
			fail("SliceableDiff for non-sequences")
			return
		}
		i, j := 0, 0
		for ei, ev := range d.Edits() {
			e, ok := ev.(*diff.Edit)
			if !ok {
				fail("edit %d is a %s", ei, ev.Type())
				return
			}
			vals := e.Sliceable
			switch e.Kind() {
			case diff.EditKindCommon:
				for k := 0; k < vals.Len(); k++ {
					if i >= a.Len() || j >= b.Len() || !eq(vals.Index(k), a.Index(i)) || !eq(vals.Index(k), b.Index(j)) {
						fail("edit %d (common) element %d does not match old[%d]/new[%d]", ei, k, i, j)
						return
					}
					i, j = i+1, j+1
				}
			case diff.EditKindDelete:
				for k := 0; k < vals.Len(); k++ {
					if i >= a.Len() || !eq(vals.Index(k), a.Index(i)) {
						fail("edit %d (delete) element %d does not match old[%d]", ei, k, i)
						return
					}
					i++
				}
			case diff.EditKindAdd:
				for k := 0; k < vals.Len(); k++ {
					if j >= b.Len() || !eq(vals.Index(k), b.Index(j)) {
						fail("edit %d (add) element %d does not match new[%d]", ei, k, j)
						return
					}
					j++
				}
			case diff.EditKindReplace:
				for k := 0; k < vals.Len(); k++ {
					sub := vals.Index(k)
					if sub == starlark.None {
						if i >= a.Len() || j >= b.Len() || !eq(a.Index(i), b.Index(j)) {
							fail("edit %d (replace) element %d is None but old[%d] != new[%d]", ei, k, i, j)
							return
						}
						i, j = i+1, j+1
						continue
					}
					sd, ok := sub.(diff.ValueDiff)
					if !ok {
						fail("edit %d (replace) element %d is a %s", ei, k, sub.Type())
						return
					}
					if strLike(old) && strLike(new) {
						// string-like replace: one literal diff covering a run on each side
						os, ok1 := seq(sd.Old())
						ns, ok2 := seq(sd.New())
						if !ok1 || !ok2 || i+os.Len() > a.Len() || j+ns.Len() > b.Len() ||
							!eq(os, a.Slice(i, i+os.Len(), 1)) || !eq(ns, b.Slice(j, j+ns.Len(), 1)) {
							fail("edit %d (replace) run does not match old[%d:]/new[%d:]", ei, i, j)
							return
						}
						i, j = i+os.Len(), j+ns.Len()
						continue
					}
					if i >= a.Len() || j >= b.Len() {
						fail("edit %d (replace) runs past the end", ei)
						return
					}
					faithful(sd, a.Index(i), b.Index(j), fmt.Sprintf("%s[%d~%d]", path, i, j), errs)
					i, j = i+1, j+1
				}
			default:
				fail("edit %d has unknown kind %q", ei, string(e.Kind()))
				return
			}
		}
		if i != a.Len() || j != b.Len() {
			fail("edits cover old[:%d] of %d and new[:%d] of %d", i, a.Len(), j, b.Len())
		}
	case *diff.MappingDiff:
		a, aok := old.(starlark.IterableMapping)
		b, bok := new.(starlark.IterableMapping)
		if !aok || !bok {
			fail("MappingDiff for non-mappings")
			return
		}
		want := map[string]string{} // key repr -> kind
		keys := map[string]starlark.Value{}
		for _, kv := range a.Items() {
			nv, has, _ := b.Get(kv[0])
			k := kv[0].String() + "/" + kv[0].Type()
			keys[k] = kv[0]
			if !has {
				want[k] = "delete"
			} else if !eq(kv[1], nv) {
				want[k] = "replace"
			}
		}
		for _, kv := range b.Items() {
			if _, has, _ := a.Get(kv[0]); !has {
				k := kv[0].String() + "/" + kv[0].Type()
				keys[k] = kv[0]
				want[k] = "add"
			}
		}
		got := map[string]bool{}
		for _, kv := range d.Edits().Items() {
			k := kv[0].String() + "/" + kv[0].Type()
			got[k] = true
			e, ok := kv[1].(*diff.Edit)
			if !ok {
				fail("edit for key %s is a %s", k, kv[1].Type())
				continue
			}
			w, ok := want[k]
			if !ok {
				fail("edit (%s) for key %s which did not change", string(e.Kind()), k)
				continue
			}
			if string(e.Kind()) != w {
				fail("edit for key %s has kind %s, want %s", k, string(e.Kind()), w)
				continue
			}
			if e.Sliceable.Len() != 1 {
				fail("edit for key %s has %d values", k, e.Sliceable.Len())
				continue
			}
			v := e.Sliceable.Index(0)
			ov, _, _ := a.Get(kv[0])
			nv, _, _ := b.Get(kv[0])
			switch w {
			case "delete":
				if !eq(v, ov) {
					fail("delete edit for key %s carries %s, want old value", k, short(v))
				}
			case "add":
				if !eq(v, nv) {
					fail("add edit for key %s carries %s, want new value", k, short(v))
				}
			case "replace":
				sd, ok := v.(diff.ValueDiff)
				if !ok {
					fail("replace edit for key %s carries a %s", k, v.Type())
					continue
				}
				faithful(sd, ov, nv, path+"{"+k+"}", errs)
			}
		}
		for k, w := range want {
			if !got[k] {
				fail("no edit for key %s (%s)", k, w)
			}
		}
	default:
		fail("unknown diff type %s", d.Type())
	}
}

func strLike(v starlark.Value) bool {
	switch v.(type) {
	case starlark.String, starlark.Bytes:
		return true
	}
	return false
}

func short(v starlark.Value) string {
	s := v.String()
	if len(s) > 50 {
		s = s[:50] + "…"
	}
	return v.Type() + " " + s
}

type c16gen struct {
	r *rand.Rand
}

var c16atoms = []starlark.Value{
	starlark.MakeInt(0), starlark.MakeInt(1), starlark.MakeInt(2), starlark.MakeInt(300), starlark.String("a"), starlark.String("b"),
	starlark.String(""), starlark.None, starlark.True, starlark.Float(1.5), starlark.Bytes("x"),
}

func (g *c16gen) atom() starlark.Value { return c16atoms[g.r.IntN(len(c16atoms))] }

func (g *c16gen) strOf(n int) string {
	var b strings.Builder
	for i := 0; i < n; i++ {
		b.WriteByte("abc"[g.r.IntN(3)])
	}
	return b.String()
}

func (g *c16gen) value(depth, maxLen int) starlark.Value {
	if depth <= 0 {
		return g.atom()
	}
	n := g.r.IntN(maxLen + 1)
	switch g.r.IntN(7) {
	case 0:
		return starlark.String(g.strOf(n))
	case 1:
		return starlark.Bytes(g.strOf(n))
	case 2, 3:
		t := make(starlark.Tuple, n)
		for i := range t {
			t[i] = g.elem(depth)
		}
		if g.r.IntN(2) == 0 {
			return t
		}
		return starlark.NewList(t)
	case 4, 5:
		d := starlark.NewDict(n)
		for i := 0; i < n; i++ {
			d.SetKey(g.key(), g.elem(depth))
		}
		return d
	default:
		return g.atom()
	}
}

func (g *c16gen) key() starlark.Value {
	switch g.r.IntN(3) {
	case 0:
		return starlark.MakeInt(g.r.IntN(8))
	case 1:
		return starlark.String(string(rune('p' + g.r.IntN(6))))
	default:
		return starlark.Tuple{starlark.MakeInt(g.r.IntN(3))}
	}
}

func (g *c16gen) elem(depth int) starlark.Value {
	if g.r.IntN(3) == 0 {
		return g.value(depth-1, 5)
	}
	return g.atom()
}

// mutate returns a value derived from v by a few edits (so diffs have common runs).
func (g *c16gen) mutate(v starlark.Value, depth int) starlark.Value {
	switch v := v.(type) {
	case starlark.String:
		return starlark.String(g.mutStr(string(v)))
	case starlark.Bytes:
		return starlark.Bytes(g.mutStr(string(v)))
	case starlark.Tuple:
		return starlark.Tuple(g.mutElems([]starlark.Value(v), depth))
	case *starlark.List:
		var elems []starlark.Value
		for i := 0; i < v.Len(); i++ {
			elems = append(elems, v.Index(i))
		}
		out := g.mutElems(elems, depth)
		if g.r.IntN(10) == 0 {
			return starlark.Tuple(out) // mixed sliceable types
		}
		return starlark.NewList(out)
	case *starlark.Dict:
		d := starlark.NewDict(v.Len())
		for _, kv := range v.Items() {
			switch g.r.IntN(6) {
			case 0: // drop
			case 1:
				d.SetKey(kv[0], g.mutate(kv[1], depth-1))
			default:
				d.SetKey(kv[0], kv[1])
			}
		}
		for k := g.r.IntN(3); k > 0; k-- {
			d.SetKey(g.key(), g.elem(depth))
		}
		return d
	default:
		if g.r.IntN(2) == 0 {
			return g.atom()
		}
		return v
	}
}

func (g *c16gen) mutStr(s string) string {
	b := []byte(s)
	for k := g.r.IntN(4); k > 0; k-- {
		switch op := g.r.IntN(3); {
		case op == 0 && len(b) > 0:
			i := g.r.IntN(len(b))
			b = append(b[:i:i], b[i+1:]...)
		case op == 1:
			i := g.r.IntN(len(b) + 1)
			b = append(b[:i:i], append([]byte{"abc"[g.r.IntN(3)]}, b[i:]...)...)
		case len(b) > 0:
			b[g.r.IntN(len(b))] = "abcd"[g.r.IntN(4)]
		}
	}
	return string(b)
}

func (g *c16gen) mutElems(in []starlark.Value, depth int) []starlark.Value {
	out := append([]starlark.Value(nil), in...)
	for k := g.r.IntN(4); k > 0; k-- {
		switch op := g.r.IntN(4); {
		case op == 0 && len(out) > 0:
			i := g.r.IntN(len(out))
			out = append(out[:i:i], out[i+1:]...)
		case op == 1:
			i := g.r.IntN(len(out) + 1)
			out = append(out[:i:i], append([]starlark.Value{g.elem(depth)}, out[i:]...)...)
		case op == 2 && len(out) > 0:
			i := g.r.IntN(len(out))
			out[i] = g.mutate(out[i], depth-1)
		case len(out) > 0:
			out[g.r.IntN(len(out))] = g.atom()
		}
	}
	return out
}

func relLen(a, b starlark.Value) string {
	la, lb := starlark.Len(a), starlark.Len(b)
	switch {
	case la < 0 || lb < 0:
		return "scalar"
	case la < lb:
		return "shorter->longer"
	case la == lb:
		return "same-length"
	default:
		return "longer->shorter"
	}
}

func c16Check(c *core.Ctx, id string, a, b starlark.Value) {
	if !c.Want(id) {
		return
	}
	d, err := diff.Diff(a, b)
	shape := a.Type() + "->" + b.Type() + "/" + relLen(a, b)
	key := ""
	if !eq(a, b) {
		key = fmt.Sprintf("%x", hashStr(a.String()+"\x00"+b.String()))
	}
	c.Eval(key)
	c.Count("pairs:"+shape, 1)
	if err != nil {
		c.Violation(id, "", "diff-error", map[string]any{"old": short(a), "new": short(b), "error": err.Error()})
		return
	}
	if d != nil {
		c.Count("diffkind:"+d.Type(), 1)
	} else {
		c.Count("diffkind:empty", 1)
	}
	var errs []string
	faithful(d, a, b, "$", &errs)
	if len(errs) > 0 {
		ds := "<nil>"
		if d != nil {
			ds = d.String()
			if len(ds) > 300 {
				ds = ds[:300] + "…"
			}
		}
		c.Violation(id, "", "unfaithful-diff", map[string]any{"old": a.String(), "new": b.String(), "diff": ds, "failed_assertions": errs})
		return
	}
	c.SampleKey(shape, map[string]string{"case": id, "old": short(a), "new": short(b)})
}

func runC16(c *core.Ctx) {
	c.SetRule("pairs of Starlark values: exhaustive short strings over {a,b} (all relative lengths), PRNG-generated nested values paired with mutated copies " +
		"(insert/delete/replace/nested edits) and with unrelated values, plus large pairs crossing the edit-graph size fallback; " +
		"non-trivial = the two values differ; distinct = distinct (old,new) renderings")
	// 1. exhaustive: all pairs of strings over {a,b} up to length 4 (31 x 31), as str, bytes, tuple and list.
	var words []string
	var rec func(p string)
	rec = func(p string) {
		words = append(words, p)
		if len(p) < 4 {
			rec(p + "a")
			rec(p + "b")
		}
	}
	rec("")
	toSeq := func(kind int, w string) starlark.Value {
		switch kind {
		case 0:
			return starlark.String(w)
		case 1:
			return starlark.Bytes(w)
		}
		t := make(starlark.Tuple, len(w))
		for i := range w {
			t[i] = starlark.MakeInt(int(w[i] - 'a'))
		}
		if kind == 2 {
			return t
		}
		return starlark.NewList(t)
	}
	for kind := 0; kind < 4; kind++ {
		for i, x := range words {
			for j, y := range words {
				c16Check(c, fmt.Sprintf("exh/%d/%d/%d", kind, i, j), toSeq(kind, x), toSeq(kind, y))
			}
		}
	}
	c.Extra("exhaustive_part", "all 31x31 pairs of words over {a,b} up to length 4, as string, bytes, tuple and list")

	// 2. generated pairs.
	n := c.N(30000, 3000000)
	g := &c16gen{r: c.Rand("pairs")}
	for i := 0; i < n; i++ {
		id := fmt.Sprintf("gen/%d", i)
		a := g.value(3, []int{3, 8, 40}[g.r.IntN(3)])
		var b starlark.Value
		if g.r.IntN(4) == 0 {
			b = g.value(3, 8)
		} else {
			b = g.mutate(a, 3)
		}
		if g.r.IntN(2) == 0 {
			a, b = b, a
		}
		c16Check(c, id, a, b)
	}

	// 3. large pairs (cross the route-size fallback of the edit-graph search).
	big := c.N(3, 12)
	bg := &c16gen{r: c.Rand("big")}
	for i := 0; i < big; i++ {
		na, nb := 1500+bg.r.IntN(1200), 1500+bg.r.IntN(1200)
		mk := func(n, mod int) starlark.Value {
			t := make(starlark.Tuple, n)
			for k := range t {
				t[k] = starlark.MakeInt(bg.r.IntN(mod))
			}
			return t
		}
		mod := []int{2, 1000000, 50}[i%3]
		c16Check(c, fmt.Sprintf("big/%d", i), mk(na, mod), mk(nb, mod))
	}
	// 3b. pairs that differ almost everywhere and are long enough for the search to drop its consumed prefix and restart on
	// a smaller window more than once (3000-4500 elements), as strings, bytes, tuples and lists
	for i := 0; i < c.N(4, 16); i++ {
		na, nb := 3000+bg.r.IntN(800), 3000+bg.r.IntN(800)
		mkw := func(n int, off int) string {
			b := make([]byte, n)
			for k := range b {
				b[k] = byte('a' + (k*7+off+bg.r.IntN(3))%23)
			}
			return string(b)
		}
		wa, wb := mkw(na, 0), mkw(nb, 11)
		var x, y starlark.Value
		switch i % 4 {
		case 0:
			x, y = starlark.String(wa), starlark.String(wb)
		case 1:
			x, y = starlark.Bytes(wa), starlark.Bytes(wb)
		default:
			tx, ty := make(starlark.Tuple, na), make(starlark.Tuple, nb)
			for k := range tx {
				tx[k] = starlark.MakeInt(k*2 + 1)
			}
			for k := range ty {
				ty[k] = starlark.MakeInt(k * 2)
			}
			x, y = tx, ty
			if i%4 == 3 {
				x, y = starlark.NewList(tx), starlark.NewList(ty)
			}
		}
		c16Check(c, fmt.Sprintf("huge/%d", i), x, y)
	}
	_ = sval.Describe

	// 4. the rebuild reason on generated project edits (journaled children)
	var ids []string
	for i := 0; i < c.N(60, 2000); i++ {
		if id := fmt.Sprintf("proj/%d", i); c.Want(id) {
			ids = append(ids, id)
		}
	}
	c.RunSharded(ids, core.ShardOpts{Mode: "c16proj", Workers: 10, Timeout: 20 * time.Minute})
}

// ---- the rebuild reason shown for a target --------------------------------------------------

var envKeyOrder = []string{"names", "constant values", "predeclared values", "universal values", "function values", "global values", "default parameter values", "free variables", "code"}

func expectedReason(diffKeys []string) string {
	var reasons []string
	for _, k := range envKeyOrder {
		for _, d := range diffKeys {
			if d == k {
				reasons = append(reasons, k)
			}
		}
	}
	switch len(reasons) {
	case 0:
		return "function environment changed"
	case 1:
		return reasons[0] + " changed"
	case 2:
		return reasons[0] + " and " + reasons[1] + " changed"
	}
	return strings.Join(reasons[:len(reasons)-1], ", ") + ", and " + reasons[len(reasons)-1] + " changed"
}

func init() { registerCase("c16proj", c16ProjCase) }

// c16ProjCase: edits that touch parts of a function's environment; the reason of every
// TargetEvaluating event that carries a diff must name exactly the keys whose old/new values differ
// (recomputed from the Old()/New() dicts of the delivered diff).
func c16ProjCase(c *core.Ctx, id string) {
	g := &pj.Gen{R: c.Rand(id)}
	dir := filepath.Join(c.Scratch, fmt.Sprintf("c16p-%d", os.Getpid()))
	os.RemoveAll(dir)
	defer os.RemoveAll(dir)
	s := pj.NewSession(dir)
	e := pj.NewEngine(s, g.Project(), g)
	e.Build("//:all", pj.BuildOpt{})
	for step := 0; step < 8; step++ {
		kinds := []string{"atom-lit", "atom-lit", "atom-default", "tgt-extra", "const-add", "flag", "dep-add"}
		n := 1 + g.R.IntN(2)
		var applied []string
		for k := 0; k < n; k++ {
			kind := kinds[g.R.IntN(len(kinds))]
			if e.Edit(kind) {
				applied = append(applied, kind)
			}
		}
		_, res, _ := e.Build("//:all", pj.BuildOpt{})
		for _, ev := range res.Events {
			if ev.Kind != "TargetEvaluating" || strings.HasPrefix(ev.Label, "source:") {
				continue
			}
			c.Eval("")
			if !ev.HasDiff {
				c.Count("reasons_without_diff", 1)
				continue
			}
			c.Count("reasons_with_diff", 1)
			for _, k := range ev.DiffKeys {
				c.Count("differing_part:"+k, 1)
			}
			c.Distinct(fmt.Sprintf("%s/%d/%s", id, step, ev.Label))
			if want := expectedReason(ev.DiffKeys); ev.Reason != want {
				c.Violation(id, "", "rebuild-reason-does-not-name-the-differing-parts", map[string]any{"label": ev.Label, "reason": ev.Reason, "parts_that_differ": ev.DiffKeys, "expected_reason": want, "edits": applied, "history": e.Script()})
				return
			}
			c.SampleKey("reason", map[string]any{"case": id, "label": ev.Label, "edits": applied, "reason": ev.Reason})
		}
	}
}
