package main

import (
	"context"
	"errors"
	"fmt"
	"iter"
	"math/rand/v2"
	"os"
	"path"
	"path/filepath"
	"reflect"
	"runtime"
	"sort"
	"strings"
	"time"

	"github.com/pgavlin/dawn/internal/mvs"
	"github.com/pgavlin/dawn/internal/project"
	"github.com/pgavlin/dawn/internal/vcs"
	"github.com/pgavlin/dawn/verifharness/core"
	"golang.org/x/mod/module"
	"golang.org/x/mod/semver"
)

func init() {
	register("C10", "exploration", func(c *core.Ctx) { runMVS(c, "C10") })
	register("C11", "exploration", func(c *core.Ctx) { runMVS(c, "C11") })
	registerCase("mvs-C10", func(c *core.Ctx, id string) { mvsCase(c, "C10", id) })
	registerCase("mvs-C11", func(c *core.Ctx, id string) { mvsCase(c, "C11", id) })
}

// ---- universe -------------------------------------------------------------------------------

// joinMajor builds a project path with its major-version suffix (independently of dawn's own
// helper): majors 0 and 1 have no suffix, every other major N is "<path>@vN".
func joinMajor(p string, major int) string {
	if major < 2 {
		return p
	}
	return fmt.Sprintf("%s@v%d", p, major)
}

type uVersion struct {
	Path    string // full project path incl. @vN for N >= 2
	Version string
	Reqs    []module.Version
	Name    string
	rev     string
	projDir string // path of the project inside its repository
}

type universe struct {
	repos    map[string]*fakeRepo   // by repository address
	versions map[string][]*uVersion // by project path, ascending semver order
	paths    []string
	// pseudo holds the content of pseudo-versions (a project path at an untagged revision) that reference
	// resolution of a ref query has produced, keyed "path@version"
	pseudo map[string]*uVersion
	devs   []*uVersion // untagged revisions that change a project's configuration
	pseudoEdges int    // requirement edges onto pseudo-versions
	// tagless projects have commits but no tagged version: "latest" falls back to the default branch
	tagless map[string]string // project path -> directory in its repository
}

func (u *universe) find(p, v string) *uVersion {
	if x, ok := u.pseudo[p+"@"+v]; ok {
		return x
	}
	for _, x := range u.versions[p] {
		if x.Version == v {
			return x
		}
	}
	return nil
}

type fakeRev struct {
	id   string
	n    int
	repo *fakeRepo
}

func (r *fakeRev) ID() string       { return r.id }
func (r *fakeRev) PseudoID() string { return fmt.Sprintf("%012d", r.n) }
func (r *fakeRev) When() time.Time  { return time.Unix(int64(1700000000+r.n*100), 0) }
func (r *fakeRev) History() iter.Seq[vcs.Revision] {
	return func(yield func(vcs.Revision) bool) {
		for i := r.n; i >= 0; i-- {
			if !yield(r.repo.revs[i]) {
				return
			}
		}
	}
}

type fakeRepo struct {
	addr     string
	revs     []*fakeRev
	byRev    map[string]*uVersion
	tags     []*vcs.Version
	refs     map[string]string
	fetches  int
	listings int
}

func (r *fakeRepo) Path() string                                   { return r.addr }
func (r *fakeRepo) DefaultRef(ctx context.Context) (string, error) { return "main", nil }
func (r *fakeRepo) Versions(ctx context.Context) ([]*vcs.Version, error) {
	r.listings++
	return r.tags, nil
}
func (r *fakeRepo) ResolveRef(ctx context.Context, ref string) (string, error) {
	if id, ok := r.refs[ref]; ok {
		return id, nil
	}
	return "", errors.New("no such reference")
}
func (r *fakeRepo) GetRevision(ctx context.Context, id string) (vcs.Revision, error) {
	for _, rev := range r.revs {
		if rev.id == id || rev.PseudoID() == id { // a pseudo-version names its revision by the abbreviated id
			return rev, nil
		}
	}
	return nil, errors.New("no such revision")
}
func (r *fakeRepo) FetchRevision(ctx context.Context, projectPath string, revision vcs.Revision, destDir string) error {
	r.fetches++
	uv := r.contentAt(projectPath, revision.ID())
	if uv == nil {
		return fmt.Errorf("no project %q at revision %s", projectPath, revision.ID())
	}
	// requirement paths are written in legal non-canonical spellings now and then (trailing slash, @v0/@v1 suffix of a
	// path that needs none, a slash before the major suffix, doubled slash, leading ./): dawn cleans them on load
	reqs := map[string]project.RequirementConfig{}
	for i, q := range uv.Reqs {
		reqs[fmt.Sprintf("r%d", i)] = project.RequirementConfig{Path: spellPath(q.Path, len(uv.Version)*7+len(uv.Path)+i*3+len(uv.rev)+int(uv.rev[len(uv.rev)-1])), Version: q.Version}
	}
	dir := filepath.Join(destDir, filepath.FromSlash(projectPath))
	if err := os.MkdirAll(dir, 0o700); err != nil {
		return err
	}
	// now and then the project also still carries its legacy .dawnconfig with other (stale) requirements: dawn.toml wins
	if (len(uv.rev)+len(uv.Path)+len(uv.Reqs))%5 == 0 {
		stale := map[string]project.RequirementConfig{}
		for n, rq := range reqs {
			if len(stale) < len(reqs)-1 {
				stale[n] = rq
			}
		}
		stale["gone"] = project.RequirementConfig{Path: "github.com/org/r0/never-existed", Version: "v1.0.0"}
		project.WriteConfigFile(filepath.Join(dir, ".dawnconfig"), &project.Config{Name: uv.Name, Version: uv.Version, Requirements: stale})
	}
	return project.WriteConfigFile(filepath.Join(dir, "dawn.toml"), &project.Config{Name: uv.Name, Version: uv.Version, Requirements: reqs})
}

// contentAt: the repository is a linear history of commits, each of which rewrites one project directory; the content of a
// project directory at a revision is what the latest commit up to it wrote there (nil = the directory does not exist yet).
func (r *fakeRepo) contentAt(projDir, revID string) *uVersion {
	n := -1
	for _, rev := range r.revs {
		if rev.id == revID || rev.PseudoID() == revID {
			n = rev.n
		}
	}
	for i := n; i >= 0; i-- {
		if uv := r.byRev[r.revs[i].id]; uv != nil && uv.projDir == projDir {
			return uv
		}
	}
	return nil
}

// spellPath returns a legal spelling of project path p that dawn's loader cleans back to p.
func spellPath(p string, k int) string {
	base, major := p, ""
	if i := strings.LastIndex(p, "@v"); i >= 0 {
		base, major = p[:i], p[i:]
	}
	switch k % 9 {
	case 3:
		return base + "/" + major
	case 4:
		if major == "" {
			return base + "@v1"
		}
	case 5:
		if major == "" {
			return base + "/@v1"
		}
		return strings.Replace(base, "/", "//", 1) + major
	case 6:
		return "./" + p
	case 7:
		if major == "" {
			return base + "@v0"
		}
	}
	return p
}

func genUniverse(r *rand.Rand) *universe {
	u := &universe{repos: map[string]*fakeRepo{}, versions: map[string][]*uVersion{}, pseudo: map[string]*uVersion{}}
	nrepo := 1 + r.IntN(3)
	nproj := 2 + r.IntN(9)
	type pd struct {
		repo *fakeRepo
		dir  string
		name string
	}
	var projs []pd
	rootTaken := map[string]bool{}
	for k := 0; k < nrepo; k++ {
		addr := fmt.Sprintf("github.com/org/r%d", k)
		u.repos[addr] = &fakeRepo{addr: addr, byRev: map[string]*uVersion{}, refs: map[string]string{}}
	}
	for i := 0; i < nproj; i++ {
		repo := u.repos[fmt.Sprintf("github.com/org/r%d", r.IntN(nrepo))]
		dir := fmt.Sprintf("p%d", i)
		if r.IntN(5) == 0 {
			dir = fmt.Sprintf("sub/p%d", i)
		}
		if !rootTaken[repo.addr] && r.IntN(3) == 0 {
			dir = "" // the project at the root of its repository: its path is the repository's address
			rootTaken[repo.addr] = true
		}
		name := fmt.Sprintf("proj%d", i)
		if r.IntN(4) == 0 {
			name = "" // nameless project: the requirement name is derived from the path
		}
		if r.IntN(6) == 0 {
			name = "shared" // name collisions between projects
		}
		projs = append(projs, pd{repo, dir, name})
	}
	// versions (requirements are filled in afterwards so that they can point anywhere, cycles included)
	var all []*uVersion
	for _, p := range projs {
		majors := []int{1}
		if r.IntN(3) == 0 {
			majors = append(majors, 2)
		}
		if r.IntN(8) == 0 {
			majors = []int{0, 1, 2, 3}
		}
		if r.IntN(8) == 0 {
			majors = append(majors, []int{9, 10, 11, 19, 20, 100}[r.IntN(6)]) // two- and three-digit majors
		}
		for _, mj := range majors {
			nv := 1 + r.IntN(6)
			seen := map[string]bool{}
			for k := 0; k < nv; k++ {
				v := fmt.Sprintf("v%d.%d.%d", mj, r.IntN(4), r.IntN(4))
				if r.IntN(6) == 0 {
					v += []string{"-rc.1", "-alpha", "-beta.2"}[r.IntN(3)]
				}
				if seen[v] {
					continue
				}
				seen[v] = true
				full := joinMajor(path.Join(p.repo.addr, p.dir), mj)
				uv := &uVersion{Path: full, Version: v, Name: p.name, projDir: p.dir}
				u.versions[full] = append(u.versions[full], uv)
				all = append(all, uv)
			}
		}
	}
	u.finish(all, r)
	// projects that were never tagged: one or two commits at the end of a repository's history
	u.tagless = map[string]string{}
	for k := r.IntN(3) - 1; k > 0; k-- {
		repo := u.repos[fmt.Sprintf("github.com/org/r%d", r.IntN(nrepo))]
		dir := fmt.Sprintf("untagged%d", k)
		full := path.Join(repo.addr, dir)
		u.tagless[full] = dir
		for j := 1 + r.IntN(2); j > 0; j-- {
			dv := &uVersion{Path: full, Name: "fresh" + fmt.Sprint(k), projDir: dir}
			drev := &fakeRev{id: fmt.Sprintf("%s-rev%d", path.Base(repo.addr), len(repo.revs)), n: len(repo.revs), repo: repo}
			repo.revs = append(repo.revs, drev)
			dv.rev = drev.id
			repo.byRev[drev.id] = dv
			repo.refs["main"] = drev.id
			u.devs = append(u.devs, dv)
		}
	}
	// requirement edges: diamonds and cycles
	for _, uv := range append(append([]*uVersion{}, all...), u.devs...) {
		for k := r.IntN(4); k > 0; k-- {
			q := all[r.IntN(len(all))]
			if q.Path == uv.Path {
				continue
			}
			dup := false
			for _, e := range uv.Reqs {
				dup = dup || (e.Path == q.Path && e.Version == q.Version)
			}
			// one project may be required twice under different names at different versions
			// (both edges count), but most projects list each path once
			samePath := false
			for _, e := range uv.Reqs {
				samePath = samePath || e.Path == q.Path
			}
			if !dup && (!samePath || r.IntN(3) == 0) {
				uv.Reqs = append(uv.Reqs, module.Version{Path: q.Path, Version: q.Version})
			}
		}
	}
	// a few requirements on untagged commits (pseudo-versions): the content of such a version is the project directory at
	// that revision, which the resolver has to fetch by revision rather than by tag
	for k := 1 + r.IntN(3); k > 0 && len(u.devs) > 0; k-- {
		dv := u.devs[r.IntN(len(u.devs))]
		if _, tagless := u.tagless[dv.Path]; tagless {
			continue
		}
		repo := u.repoOf(dv.Path)
		ref := ""
		for n, rid := range repo.refs {
			if rid == dv.rev && strings.HasPrefix(n, "dev") {
				ref = n
			}
		}
		if ref == "" {
			continue
		}
		pv := u.refResolveRef(qspec{path: dv.Path, arg: ref})
		src := all[r.IntN(len(all))]
		if pv == "" || src.Path == dv.Path {
			continue
		}
		src.Reqs = append(src.Reqs, module.Version{Path: dv.Path, Version: pv})
		u.pseudoEdges++
	}
	return u
}

// finish sorts versions and creates repositories' revisions, tags and refs.
func (u *universe) finish(all []*uVersion, r *rand.Rand) {
	for p, vs := range u.versions {
		sort.SliceStable(vs, func(i, j int) bool { return semver.Compare(vs[i].Version, vs[j].Version) < 0 })
		u.paths = append(u.paths, p)
	}
	sort.Strings(u.paths)
	// revisions: one per tagged version, in a deterministic order
	sort.SliceStable(all, func(i, j int) bool {
		if all[i].Path != all[j].Path {
			return all[i].Path < all[j].Path
		}
		return semver.Compare(all[i].Version, all[j].Version) < 0
	})
	r.Shuffle(len(all), func(i, j int) { all[i], all[j] = all[j], all[i] })
	for _, uv := range all {
		addr := repoAddr(uv.Path)
		repo := u.repos[addr]
		rev := &fakeRev{id: fmt.Sprintf("%s-rev%d", path.Base(addr), len(repo.revs)), n: len(repo.revs), repo: repo}
		repo.revs = append(repo.revs, rev)
		uv.rev = rev.id
		repo.byRev[rev.id] = uv
		repo.tags = append(repo.tags, &vcs.Version{Version: module.Version{Path: uv.Path, Version: uv.Version}, ProjectPath: uv.projDir, RevisionID: rev.id})
		repo.refs[uv.projDir+"/"+uv.Version] = rev.id
		repo.refs["main"] = rev.id
		if r.IntN(3) == 0 {
			repo.refs[fmt.Sprintf("tag%d", len(repo.refs))] = rev.id // a branch that points exactly at a tagged revision
		}
		if r.IntN(3) == 0 {
			// an untagged commit that rewrites this project's configuration (its requirements are filled in with the others')
			dv := &uVersion{Path: uv.Path, Version: uv.Version, Name: uv.Name, projDir: uv.projDir}
			drev := &fakeRev{id: fmt.Sprintf("%s-rev%d", path.Base(addr), len(repo.revs)), n: len(repo.revs), repo: repo}
			repo.revs = append(repo.revs, drev)
			dv.rev = drev.id
			repo.byRev[drev.id] = dv
			repo.refs[fmt.Sprintf("dev%d", len(repo.refs))] = drev.id
			if r.IntN(3) == 0 {
				repo.refs[fmt.Sprintf("vnext%d", len(repo.refs))] = drev.id // a branch whose name starts like a version but is none
			}
			repo.refs["main"] = drev.id
			u.devs = append(u.devs, dv)
		}
	}
	for _, repo := range u.repos {
		sort.SliceStable(repo.tags, func(i, j int) bool {
			return semver.Compare(repo.tags[i].Version.Version, repo.tags[j].Version.Version) < 0
		})
	}
}

func majorOf(v string) int {
	n := 0
	fmt.Sscanf(semver.Major(v), "v%d", &n)
	return n
}

// specUniverse builds a universe from "path version -> requirements" lines (one repository).
func specUniverse(spec map[string][]string) *universe {
	u := &universe{repos: map[string]*fakeRepo{}, versions: map[string][]*uVersion{}, pseudo: map[string]*uVersion{}}
	addr := "github.com/org/r0"
	u.repos[addr] = &fakeRepo{addr: addr, byRev: map[string]*uVersion{}, refs: map[string]string{}}
	var all []*uVersion
	keys := make([]string, 0, len(spec))
	for k := range spec {
		keys = append(keys, k)
	}
	sort.Strings(keys)
	for _, k := range keys {
		f := strings.Fields(k) // "<dir> <version>"
		full := joinMajor(path.Join(addr, f[0]), majorOf(f[1]))
		uv := &uVersion{Path: full, Version: f[1], Name: f[0], projDir: f[0]}
		for _, rq := range spec[k] {
			g := strings.Fields(rq)
			uv.Reqs = append(uv.Reqs, module.Version{Path: joinMajor(path.Join(addr, g[0]), majorOf(g[1])), Version: g[1]})
		}
		u.versions[full] = append(u.versions[full], uv)
		all = append(all, uv)
	}
	u.finish(all, rand.New(rand.NewPCG(1, 1)))
	return u
}

func (u *universe) dialer() mvs.Dialer {
	return mvs.VerifDialer(func(ctx context.Context, kind, address string) (vcs.Repository, error) {
		if r, ok := u.repos[address]; ok && kind == "git" {
			return r, nil
		}
		return nil, fmt.Errorf("no repository at %s", address)
	})
}

func (u *universe) rootConfig(r *rand.Rand) *project.Config {
	cfg := &project.Config{Name: "root", Requirements: map[string]project.RequirementConfig{}}
	for k := 1 + r.IntN(6); k > 0; k-- {
		p := u.paths[r.IntN(len(u.paths))]
		vs := u.versions[p]
		v := vs[r.IntN(len(vs))]
		// a path is usually listed once; now and then the root lists it twice under two names at different versions
		// (both requirements count: the older version's own requirements stay in the build list)
		dup := false
		for _, q := range cfg.Requirements {
			dup = dup || (q.Path == p && (q.Version == v.Version || r.IntN(3) != 0))
		}
		if !dup {
			cfg.Requirements[fmt.Sprintf("req%d", len(cfg.Requirements))] = project.RequirementConfig{Path: p, Version: v.Version}
		}
	}
	return cfg
}

// refBuildList: reachability over (path, version) nodes from the root requirements, the highest
// version per path among the nodes reached.
func (u *universe) refBuildList(cfg *project.Config) map[string]string {
	type node struct{ p, v string }
	seen := map[node]bool{}
	best := map[string]string{"": ""}
	var queue []node
	for _, q := range cfg.Requirements {
		queue = append(queue, node{q.Path, q.Version})
	}
	for len(queue) > 0 {
		n := queue[0]
		queue = queue[1:]
		if seen[n] {
			continue
		}
		seen[n] = true
		if cur, ok := best[n.p]; !ok || semver.Compare(n.v, cur) > 0 {
			best[n.p] = n.v
		}
		if uv := u.find(n.p, n.v); uv != nil {
			for _, q := range uv.Reqs {
				queue = append(queue, node{q.Path, q.Version})
			}
		}
	}
	return best
}

func cloneCfg(c *project.Config) *project.Config {
	out := &project.Config{Name: c.Name, Version: c.Version, Requirements: map[string]project.RequirementConfig{}}
	for k, v := range c.Requirements {
		out.Requirements[k] = v
	}
	return out
}

// ---- queries (reference resolution over the generated tag list) ------------------------------

type qspec struct {
	text string // as given to mvs.Get
	path string
	kind string
	arg  string
}

func (u *universe) genQuery(r *rand.Rand, bl map[string]string) qspec {
	taglessQ := func(p string) qspec {
		k := []string{"latest", "bare", "upgrade", "patch", "ref"}[r.IntN(5)]
		q := qspec{path: p, kind: "tagless-" + k, arg: "main", text: p + "@" + k}
		switch k {
		case "bare":
			q.text = p
		case "ref":
			q.text = p + "@main"
		}
		return q
	}
	if len(u.tagless) > 0 && r.IntN(10) == 0 {
		// a project without any tagged version: latest / upgrade / patch / bare all end at the default branch
		var ps []string
		for p := range u.tagless {
			ps = append(ps, p)
		}
		sort.Strings(ps)
		return taglessQ(ps[r.IntN(len(ps))])
	}
	p := u.paths[r.IntN(len(u.paths))]
	if r.IntN(2) == 0 { // prefer projects that are in the build list
		var in []string
		for q := range bl {
			if q != "" {
				in = append(in, q)
			}
		}
		sort.Strings(in)
		if len(in) > 0 {
			p = in[r.IntN(len(in))]
		}
	}
	if _, ok := u.tagless[p]; ok {
		return taglessQ(p)
	}
	vs := u.versions[p]
	v := vs[r.IntN(len(vs))].Version
	kinds := []string{"latest", "bare", "upgrade", "patch", "exact", "prefix", "lt", "lte", "gt", "gte", "ref", "ref"}
	k := kinds[r.IntN(len(kinds))]
	q := qspec{path: p, kind: k, arg: v}
	switch k {
	case "ref":
		// a branch of the project's repository: one pointing exactly at a tagged revision, one at an untagged commit, the
		// default branch, or (rarely) one that does not exist
		// (only branches on which the project's directory exists: what a ref means for a project that is not there is not
		// something the property speaks about)
		repo := u.repoOf(p)
		var names []string
		for n, rid := range repo.refs {
			if !strings.Contains(n, "/") && repo.contentAt(vs[0].projDir, rid) != nil {
				names = append(names, n)
			}
		}
		sort.Strings(names)
		q.arg = "nosuchbranch"
		if len(names) > 0 && r.IntN(12) != 0 {
			q.arg = names[r.IntN(len(names))]
		}
		q.text = p + "@" + q.arg
	case "latest":
		q.text = p + "@latest"
	case "bare":
		q.text = p
		if _, major := project.SplitPathVersion(p); major == "" && r.IntN(2) == 0 {
			// a v0/v1 project asked for by its major line: "path@v1" / "path@v0" are latest queries on the unsuffixed path
			mj := "v1"
			for _, x := range vs {
				if semver.Major(x.Version) == "v0" {
					mj = "v0"
				}
			}
			if r.IntN(2) == 0 {
				mj = semver.Major(v)
			}
			q.text = p + "@" + mj
		}
	case "upgrade":
		q.text = p + "@upgrade"
	case "patch":
		q.text = p + "@patch"
	case "exact":
		q.text = p + "@" + v
	case "prefix":
		q.arg = semver.MajorMinor(v)
		q.text = p + "@" + q.arg
	case "lt":
		q.text = p + "@<" + v
	case "lte":
		q.text = p + "@<=" + v
	case "gt":
		q.text = p + "@>" + v
	case "gte":
		q.text = p + "@>=" + v
	}
	if _, major := project.SplitPathVersion(p); major != "" && (k == "bare") {
		// "path@v2" is itself a latest query for major version 2
		q.kind = "latest"
	}
	return q
}

// refResolve returns the version the query must resolve to ("" = error / no acceptable version).
func (u *universe) refResolve(q qspec, bl map[string]string) string {
	vs := u.versions[q.path]
	latest := func() string {
		best, pre := "", ""
		for _, v := range vs {
			if semver.Prerelease(v.Version) == "" {
				best = v.Version
			} else {
				pre = v.Version
			}
		}
		if best != "" {
			return best
		}
		return pre
	}
	pick := func(ok func(string) bool) string { // highest acceptable
		out := ""
		for _, v := range vs {
			if ok(v.Version) {
				out = v.Version
			}
		}
		return out
	}
	if strings.HasPrefix(q.kind, "tagless-") {
		// without tags there is nothing but the default branch; once selected, upgrade and patch keep what is selected
		// unless the branch head is newer
		pv := u.refResolveRef(q)
		if cur, ok := bl[q.path]; ok && (q.kind == "tagless-patch" || (q.kind == "tagless-upgrade" && semver.Compare(pv, cur) < 0)) {
			return cur
		}
		return pv
	}
	switch q.kind {
	case "ref":
		return u.refResolveRef(q)
	case "latest", "bare":
		return latest()
	case "upgrade":
		l := latest()
		if cur, ok := bl[q.path]; ok && semver.Compare(l, cur) < 0 {
			return cur
		}
		return l
	case "patch":
		cur, ok := bl[q.path]
		if !ok {
			return latest()
		}
		out := cur
		for _, v := range vs {
			if semver.MajorMinor(v.Version) == semver.MajorMinor(cur) && semver.Compare(v.Version, out) > 0 {
				out = v.Version
			}
		}
		return out
	case "exact":
		return pick(func(v string) bool { return semver.Compare(v, q.arg) == 0 })
	case "prefix":
		return pick(func(v string) bool { return semver.Compare(v, semver.Canonical(q.arg)) >= 0 })
	case "lt":
		return pick(func(v string) bool { return semver.Compare(v, q.arg) < 0 })
	case "lte":
		return pick(func(v string) bool { return semver.Compare(v, q.arg) <= 0 })
	case "gt":
		return pick(func(v string) bool { return semver.Compare(v, q.arg) > 0 })
	case "gte":
		return pick(func(v string) bool { return semver.Compare(v, q.arg) >= 0 })
	}
	return ""
}

// repoAddr: host/org/repo of a project path (a project at the root of its repository may carry a major suffix there)
func repoAddr(p string) string {
	a := strings.Join(strings.Split(p, "/")[:3], "/")
	if i := strings.Index(a, "@"); i >= 0 {
		a = a[:i]
	}
	return a
}

func (u *universe) repoOf(p string) *fakeRepo {
	return u.repos[repoAddr(p)]
}

// refResolveRef: a ref names a revision; if that revision carries a tag of the queried project (path and major line) the
// answer is the tagged version, otherwise a pseudo-version built on the closest tagged ancestor of that project and major line
// (or on the bare major when there is none). "" when the ref or the project's directory does not exist at that revision.
func (u *universe) refResolveRef(q qspec) string {
	repo := u.repoOf(q.path)
	revID, ok := repo.refs[q.arg]
	if !ok {
		return ""
	}
	var rev *fakeRev
	for _, x := range repo.revs {
		if x.id == revID {
			rev = x
		}
	}
	_, major := project.SplitPathVersion(q.path)
	matches := func(v string) bool {
		m := semver.Major(v)
		return m == major || major == "" && (m == "v0" || m == "v1")
	}
	base := ""
	for i := rev.n; i >= 0 && base == ""; i-- {
		for _, t := range repo.tags {
			if t.RevisionID == repo.revs[i].id && t.Version.Path == q.path && matches(t.Version.Version) {
				if i == rev.n {
					return t.Version.Version // exactly tagged
				}
				base = t.Version.Version
			}
		}
	}
	older := base
	if older == "" {
		older = major
	}
	pv := module.PseudoVersion(major, older, rev.When(), rev.PseudoID())
	// the content of that pseudo-version: the project's directory at that revision
	projDir := u.tagless[q.path]
	for _, v := range u.versions[q.path] {
		projDir = v.projDir
	}
	content := repo.contentAt(projDir, rev.id)
	if content == nil {
		return ""
	}
	u.pseudo[q.path+"@"+pv] = &uVersion{Path: q.path, Version: pv, Reqs: content.Reqs, Name: content.Name, projDir: projDir}
	return pv
}

// ---- the cases --------------------------------------------------------------------------------

// c11Named runs the deterministic scenarios of C11 (known findings live here).
func c11Named(c *core.Ctx, id string) {
	base := filepath.Join(c.Scratch, fmt.Sprintf("mvsn-%d", os.Getpid()))
	os.RemoveAll(base)
	defer os.RemoveAll(base)
	os.Setenv("TMPDIR", filepath.Join(base, "tmp"))
	os.MkdirAll(filepath.Join(base, "tmp"), 0o755)
	ctx := context.Background()
	switch id {
	case "named/patch-repeated-moves-to-prerelease":
		// "get a@patch" on a project that is not selected yet picks the latest release v1.1.1;
		// repeating it then moves to v1.1.3-alpha, the highest version of that minor line.
		u := specUniverse(map[string][]string{"a v1.1.1": nil, "a v1.1.3-alpha": nil, "b v1.0.0": nil})
		cfg := &project.Config{Name: "root", Requirements: map[string]project.RequirementConfig{"b": {Path: "github.com/org/r0/b", Version: "v1.0.0"}}}
		res := mvs.NewResolver(filepath.Join(base, "cache"), u.dialer(), nil)
		q := "github.com/org/r0/a@patch"
		first, err := mvs.Get(ctx, cloneCfg(cfg), res, q)
		if err != nil {
			c.Violation(id, id, "operation-fails", map[string]any{"error": err.Error()})
			return
		}
		second, err := mvs.Get(ctx, &project.Config{Name: "root", Requirements: first}, res, q)
		c.Eval(id)
		c.Distinct(id + "/second")
		if err != nil || !reflect.DeepEqual(first, second) {
			c.Violation(id, id, "repeating-the-operation-changes-the-result", map[string]any{"query": q, "root": cfg.Requirements, "first_result": first, "second_result": second, "second_error": fmt.Sprint(err), "universe": u.describe()})
		}
	case "named/ref-at-the-newest-tagged-revision":
		// a branch that points exactly at the most recently tagged revision of a project with older tags resolves to that
		// tag (not to a pseudo-version built on an older tag)
		u := specUniverse(map[string][]string{"a v1.0.0": nil, "a v1.1.0": nil, "a v1.2.0": nil, "b v1.0.0": nil})
		repo := u.repos["github.com/org/r0"]
		var newest *vcs.Version
		newestN := -1
		for _, t := range repo.tags {
			for _, rev := range repo.revs {
				if rev.id == t.RevisionID && t.Version.Path == "github.com/org/r0/a" && rev.n > newestN {
					newest, newestN = t, rev.n
				}
			}
		}
		repo.refs["release"] = newest.RevisionID
		cfg := &project.Config{Name: "root", Requirements: map[string]project.RequirementConfig{"b": {Path: "github.com/org/r0/b", Version: "v1.0.0"}}}
		res := mvs.NewResolver(filepath.Join(base, "cache"), u.dialer(), nil)
		out, err := mvs.Get(ctx, cloneCfg(cfg), res, "github.com/org/r0/a@release")
		c.Eval(id)
		c.Distinct(id)
		got := ""
		for _, rq := range out {
			if rq.Path == "github.com/org/r0/a" {
				got = rq.Version
			}
		}
		if err != nil || got != newest.Version.Version {
			c.Violation(id, id, "upgrade-does-not-reach-the-resolved-version", map[string]any{"query": "github.com/org/r0/a@release", "branch_points_at_the_revision_tagged": newest.Version.Version,
				"result": out, "error": fmt.Sprint(err), "tags_in_revision_order": func() []string {
					var o []string
					for _, rev := range repo.revs {
						for _, t := range repo.tags {
							if t.RevisionID == rev.id {
								o = append(o, fmt.Sprintf("%s: %s %s", rev.id, t.Version.Path, t.Version.Version))
							}
						}
					}
					return o
				}()})
		}
	case "named/noop-get-with-a-path-under-two-names":
		// the root requires lib under two names at two versions (the older one needs legacy); a get that changes nothing
		// (other@latest is already selected) must leave both entries, and with them the build list, as they are
		u := specUniverse(map[string][]string{"lib v1.1.0": {"legacy v1.0.0"}, "lib v1.2.0": nil, "legacy v1.0.0": nil, "other v1.0.0": nil})
		cfg := &project.Config{Name: "root", Requirements: map[string]project.RequirementConfig{
			"lib": {Path: "github.com/org/r0/lib", Version: "v1.2.0"}, "lib-old": {Path: "github.com/org/r0/lib", Version: "v1.1.0"}, "other": {Path: "github.com/org/r0/other", Version: "v1.0.0"}}}
		res := mvs.NewResolver(filepath.Join(base, "cache"), u.dialer(), nil)
		before, _ := mvs.BuildList(ctx, cloneCfg(cfg), res)
		for round := 0; round < 8; round++ { // the outcome used to depend on map iteration order
			out, err := mvs.Get(ctx, cloneCfg(cfg), res, "github.com/org/r0/other@latest")
			c.Eval(id)
			c.Distinct(fmt.Sprintf("%s/%d", id, round))
			var after map[string]string
			if err == nil {
				after, _ = mvs.BuildList(ctx, &project.Config{Name: "root", Requirements: out}, res)
			}
			if err != nil || !reflect.DeepEqual(before, after) {
				c.Violation(id, id, "get-of-the-current-version-changes-the-build-list", map[string]any{"query": "github.com/org/r0/other@latest", "root": cfg.Requirements, "result": out, "error": fmt.Sprint(err), "build_list_before": before, "build_list_after": after})
				return
			}
		}
	case "named/get-lands-above-resolved-version":
		// a@v1.1.0 requires c@v1.0.0, which requires a@v1.2.0: "get a@v1.1.0" lands on v1.2.0, and
		// repeating it then downgrades to v1.0.0.
		u := specUniverse(map[string][]string{
			"a v1.0.0": nil, "a v1.1.0": {"c v1.0.0"}, "a v1.2.0": nil, "c v1.0.0": {"a v1.2.0"},
		})
		cfg := &project.Config{Name: "root", Requirements: map[string]project.RequirementConfig{"a": {Path: "github.com/org/r0/a", Version: "v1.0.0"}}}
		res := mvs.NewResolver(filepath.Join(base, "cache"), u.dialer(), nil)
		q := "github.com/org/r0/a@v1.1.0"
		first, err := mvs.Get(ctx, cloneCfg(cfg), res, q)
		if err != nil {
			c.Violation(id, id, "operation-fails", map[string]any{"error": err.Error()})
			return
		}
		second, err := mvs.Get(ctx, &project.Config{Name: "root", Requirements: first}, res, q)
		c.Eval(id)
		c.Distinct(id + "/second")
		if err != nil || !reflect.DeepEqual(first, second) {
			c.Violation(id, id, "repeating-the-operation-changes-the-result", map[string]any{"query": q, "root": cfg.Requirements, "first_result": first, "second_result": second, "second_error": fmt.Sprint(err), "universe": u.describe()})
		}
	}
}

func mvsCase(c *core.Ctx, which, id string) {
	if strings.HasPrefix(id, "named/") {
		c11Named(c, id)
		return
	}
	r := c.Rand(id)
	u := genUniverse(r)
	cfg := u.rootConfig(r)
	base := filepath.Join(c.Scratch, fmt.Sprintf("mvs-%d", os.Getpid()))
	os.RemoveAll(base)
	defer os.RemoveAll(base)
	// FetchProject renames from os.MkdirTemp("") into the cache: keep both on one file system
	os.Setenv("TMPDIR", filepath.Join(base, "tmp"))
	os.MkdirAll(filepath.Join(base, "tmp"), 0o755)
	ncache := 0
	newResolver := func(cacheDir string) *mvs.Resolver {
		if cacheDir == "" {
			ncache++
			cacheDir = filepath.Join(base, fmt.Sprintf("cache%d", ncache))
		}
		return mvs.NewResolver(cacheDir, u.dialer(), nil)
	}
	ctx := context.Background()
	ref := u.refBuildList(cfg)
	delete(ref, "")
	viol := func(sym string, w map[string]any) {
		w["root_requirements"] = cfg.Requirements
		w["universe"] = u.describe()
		c.Violation(id, "", sym, w)
	}
	bl := func(res *mvs.Resolver, cf *project.Config) (map[string]string, error) {
		m, err := mvs.BuildList(ctx, cf, res)
		if m != nil {
			delete(m, "")
		}
		return m, err
	}
	nontrivial := len(ref) > len(cfg.Requirements)

	if which == "C10" {
		warm := filepath.Join(base, "warm")
		for round := 0; round < 5; round++ {
			var res *mvs.Resolver
			kind := "cold"
			cf := cfg
			switch round {
			case 3, 4:
				res, kind = newResolver(warm), "warm"
			default:
				res = newResolver("")
			}
			if round == 0 {
				res = newResolver(warm)
			}
			if round == 1 { // the root's own requirement paths in non-canonical spellings, through the file format
				sp := &project.Config{Name: cfg.Name, Requirements: map[string]project.RequirementConfig{}}
				k := 0
				names := make([]string, 0, len(cfg.Requirements))
				for n := range cfg.Requirements {
					names = append(names, n)
				}
				sort.Strings(names)
				for _, n := range names {
					rq := cfg.Requirements[n]
					k += 3 + len(rq.Version)
					sp.Requirements[n] = project.RequirementConfig{Path: spellPath(rq.Path, k), Version: rq.Version}
				}
				f := filepath.Join(base, "respelled.toml")
				if err := project.WriteConfigFile(f, sp); err == nil {
					if loaded, err := project.LoadConfigFile(f); err == nil {
						cf, kind = loaded, "respelled"
					} else {
						viol("build-list-error", map[string]any{"error": "loading a configuration with non-canonical requirement paths: " + err.Error(), "paths": sp.Requirements})
						return
					}
				}
			}
			if round == 2 { // permuted requirement names
				cf = &project.Config{Requirements: map[string]project.RequirementConfig{}}
				names := make([]string, 0, len(cfg.Requirements))
				for n := range cfg.Requirements {
					names = append(names, n)
				}
				sort.Strings(names)
				for i, n := range names {
					cf.Requirements[fmt.Sprintf("z%d", len(names)-i)] = cfg.Requirements[n]
				}
				kind = "renamed"
			}
			got, err := bl(res, cf)
			if err != nil {
				viol("build-list-error", map[string]any{"error": err.Error(), "round": kind})
				return
			}
			if !reflect.DeepEqual(got, ref) {
				viol("build-list-is-not-the-mvs-solution", map[string]any{"build_list": got, "reference": ref, "round": kind})
				return
			}
			c.Count("resolutions_"+kind, 1)
		}
		key := ""
		if nontrivial {
			key = fmt.Sprintf("%s|%v", id, ref)
		}
		c.Eval(key)
		c.Count("projects_in_build_lists", int64(len(ref)))
		c.SampleKey("universe", map[string]any{"case": id, "root": cfg.Requirements, "build_list": ref, "universe": u.describe()})
		return
	}

	// ---- C11: sequences of get / tidy / upgrade-all
	res := newResolver("")
	cur := cloneCfg(cfg)
	var script []string
	lastRefPath := ""
	nops := c.N(8, 12)
	for step := 0; step < nops; step++ {
		before, err := bl(res, cur)
		if err != nil {
			viol("build-list-error", map[string]any{"error": err.Error(), "script": script})
			return
		}
		if rb := u.refBuildList(cur); func() bool { delete(rb, ""); return !reflect.DeepEqual(rb, before) }() {
			viol("build-list-is-not-the-mvs-solution", map[string]any{"build_list": before, "script": script})
			return
		}
		op := []string{"get", "get", "get", "tidy", "upgrade-all"}[r.IntN(5)]
		var q qspec
		var out map[string]project.RequirementConfig
		apply := func(cf *project.Config) (map[string]project.RequirementConfig, error) {
			switch op {
			case "tidy":
				return mvs.Tidy(ctx, cloneCfg(cf), res)
			case "upgrade-all":
				return mvs.UpgradeAll(ctx, cloneCfg(cf), res)
			default:
				return mvs.Get(ctx, cloneCfg(cf), res, q.text)
			}
		}
		desc := op
		want := ""
		if op == "get" {
			q = u.genQuery(r, before)
			if cur, in := before[lastRefPath]; in && lastRefPath != "" && semver.Prerelease(cur) != "" && r.IntN(2) == 0 {
				// right after a branch was selected (a pseudo-version): a query relative to what is selected
				k := []string{"patch", "upgrade", "latest"}[r.IntN(3)]
				q = qspec{path: lastRefPath, kind: k, text: lastRefPath + "@" + k}
				if _, tagless := u.tagless[lastRefPath]; tagless {
					q.kind, q.arg = "tagless-"+k, "main"
				}
				c.Count("relative_queries_on_a_selected_pseudo_version", 1)
			}
			lastRefPath = ""
			if q.kind == "ref" || q.kind == "tagless-ref" || q.kind == "tagless-latest" || q.kind == "tagless-bare" {
				lastRefPath = q.path
			}
			want = u.refResolve(q, before)
			desc = "get " + q.text
		}
		script = append(script, desc)
		c.Count("op:"+op, 1)
		out, err = apply(cur)
		if op == "get" {
			c.Count("query:"+q.kind, 1)
		}
		if err != nil {
			if op == "get" && want == "" {
				c.Eval("")
				continue // no acceptable version: an error is the right answer
			}
			viol("operation-fails", map[string]any{"op": desc, "error": err.Error(), "script": script, "requirements": cur.Requirements, "expected_version": want})
			return
		}
		if op == "get" && want == "" {
			viol("query-without-acceptable-version-succeeds", map[string]any{"op": desc, "script": script, "result": out})
			return
		}
		next := &project.Config{Name: cur.Name, Requirements: out}
		after, err := bl(res, next)
		if err != nil {
			viol("build-list-error-after-operation", map[string]any{"op": desc, "error": err.Error(), "script": script, "result": out})
			return
		}
		w := func(extra map[string]any) map[string]any {
			extra["op"], extra["script"], extra["requirements_before"], extra["requirements_after"] = desc, script, cur.Requirements, out
			extra["build_list_before"], extra["build_list_after"] = before, after
			return extra
		}
		switch op {
		case "tidy":
			if !reflect.DeepEqual(after, before) {
				viol("tidy-changes-the-build-list", w(map[string]any{}))
				return
			}
		case "upgrade-all":
			for p, v := range before {
				if nv, ok := after[p]; !ok || semver.Compare(nv, v) < 0 {
					viol("upgrade-all-lowers-a-project", w(map[string]any{"project": p}))
					return
				}
			}
		case "get":
			curV, in := before[q.path]
			nv, inAfter := after[q.path]
			switch {
			case !in || semver.Compare(want, curV) > 0: // add or upgrade
				if !inAfter || semver.Compare(nv, want) < 0 {
					viol("upgrade-does-not-reach-the-resolved-version", w(map[string]any{"resolved": want, "project": q.path}))
					return
				}
				for p, v := range before {
					if x, ok := after[p]; !ok || semver.Compare(x, v) < 0 {
						viol("upgrade-lowers-another-project", w(map[string]any{"resolved": want, "project": p}))
						return
					}
				}
				c.Count("get_upgrades", 1)
			case semver.Compare(want, curV) < 0: // downgrade
				if inAfter && semver.Compare(nv, want) > 0 {
					viol("downgrade-leaves-the-project-above-the-requested-version", w(map[string]any{"resolved": want, "project": q.path}))
					return
				}
				c.Count("get_downgrades", 1)
			default:
				if !reflect.DeepEqual(after, before) {
					viol("get-of-the-current-version-changes-the-build-list", w(map[string]any{"resolved": want}))
					return
				}
				c.Count("get_noops", 1)
			}
		}
		// names: an existing name keeps its path while that path is still required
		pathsAfter := map[string]bool{}
		for _, rq := range out {
			pathsAfter[rq.Path] = true
		}
		for n, rq := range cur.Requirements {
			if pathsAfter[rq.Path] {
				if o, ok := out[n]; !ok || o.Path != rq.Path {
					viol("existing-requirement-name-not-preserved", w(map[string]any{"name": n, "path": rq.Path}))
					return
				}
			}
		}
		if op == "get" {
			if _, in := before[q.path]; !in && !pathsAfter[q.path] {
				viol("added-requirement-missing-from-result", w(map[string]any{"project": q.path}))
				return
			}
		}
		// idempotence. A get that could not land exactly on the resolved version (another requirement
		// demands more, or the downgrade had to go lower) is known to oscillate when repeated: that
		// construct lives in the named scenario (known finding) and is skipped here.
		landed := op != "get" || after[q.path] == want
		if !landed {
			c.Count("get_landed_on_another_version_idempotence_not_asserted", 1)
		}
		if landed && op == "get" && u.refResolve(q, after) != want {
			// patch/upgrade queries are relative to the current selection: once the project is
			// selected the same text resolves to another version (a patch query on an absent project
			// picks the latest release, on a present one the highest version of its minor line,
			// pre-releases included). Known finding, named scenario; not asserted for random cases.
			landed = false
			c.Count("state_dependent_query_idempotence_not_asserted", 1)
		}
		again, err := apply(next)
		if landed && (err != nil || !reflect.DeepEqual(again, out)) {
			viol("repeating-the-operation-changes-the-result", w(map[string]any{"second_result": again, "second_error": fmt.Sprint(err)}))
			return
		}
		key := ""
		if !reflect.DeepEqual(after, before) || op != "get" {
			key = fmt.Sprintf("%s/%d", id, step)
		}
		c.Eval(key)
		cur = next
		if len(cur.Requirements) == 0 {
			break
		}
	}
	c.SampleKey("sequence", map[string]any{"case": id, "root": cfg.Requirements, "operations": script, "final": cur.Requirements})
}

func (u *universe) describe() map[string]any {
	out := map[string]any{}
	for _, p := range u.paths {
		var vs []string
		for _, v := range u.versions[p] {
			var rq []string
			for _, q := range v.Reqs {
				rq = append(rq, q.Path+"@"+q.Version)
			}
			vs = append(vs, fmt.Sprintf("%s (name %q) requires %v", v.Version, v.Name, rq))
		}
		out[p] = vs
	}
	return out
}

func runMVS(c *core.Ctx, which string) {
	if which == "C10" {
		c.SetRule("generated universes through a fake VCS dialer: 1-3 repositories, 2-10 projects, 1-6 tagged versions each incl. @v2/@v3 major paths and pre-releases, requirement edges " +
			"forming diamonds and cycles; root sets of 1-6 requirements; each universe resolved with 3 fresh resolvers and cache directories (one with permuted requirement names) and twice warm; " +
			"oracle: independent reachability/max reference; non-trivial = the build list contains a project that is not a root requirement; distinct = distinct (universe, build list)")
	} else {
		c.SetRule("the same universes x sequences of 8-12 operations (get with latest/bare/upgrade/patch/exact/prefix/<,<=,>,>= and ref queries - branches at tagged and untagged revisions -, tidy, upgrade-all); oracle: re-resolution with BuildList " +
			"and the independent reference, the resolved version of each query recomputed from the generated tag list, monotone comparisons per path, name preservation, idempotence; " +
			"termination restated as bounded progress: an operation (median < 10 ms) that has not returned after 60 s with a goroutine inside internal/mvs or the mvs library is a violation; " +
			"non-trivial = an operation that changed the build list (or a tidy/upgrade-all); distinct = distinct (universe, step)")
		c.Assume("only monotone statements are asserted for upgrades (>= resolved), another reachable requirement may legitimately demand more")
	}
	n := c.N(400, 20000)
	if which == "C11" {
		n = c.N(600, 10000)
	}
	var ids []string
	for _, nm := range []string{"named/get-lands-above-resolved-version", "named/patch-repeated-moves-to-prerelease", "named/ref-at-the-newest-tagged-revision", "named/noop-get-with-a-path-under-two-names"} {
		if which == "C11" && c.Want(nm) {
			ids = append(ids, nm)
		}
	}
	for i := 0; i < n; i++ {
		if id := fmt.Sprintf("u/%d", i); c.Want(id) {
			ids = append(ids, id)
		}
	}
	workers := runtime.NumCPU() - 2
	if workers > 14 {
		workers = 14
	}
	c.RunSharded(ids, core.ShardOpts{Mode: "mvs-" + which, Workers: workers, Timeout: 20 * time.Minute, Env: []string{"VERIF_CASE_TIMEOUT=60"},
		Died: func(caseID string, r *core.ChildResult) {
			w := map[string]any{"exit": r.Exit, "stderr": headLinesStr(r.Stderr, 60)}
			switch {
			case r.Exit == 97 && (strings.Contains(r.Stderr, "pgavlin/mvs") || strings.Contains(r.Stderr, "internal/mvs")):
				c.Violation(caseID, "", "operation-does-not-terminate", w)
			case r.Exit == 97 || r.TimedOut:
				c.Inconclusive("case " + caseID + ": watchdog fired without a goroutine inside the resolver")
			default:
				c.Violation(caseID, "", "process-died:"+r.FatalKind(), w)
			}
		}})
}
